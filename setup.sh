#!/bin/bash
# Offline setup: compile the two C++ extensions of /repo's working tree into /verif/.cache/ext (nothing is fetched).
set -e
cd "$(dirname "${BASH_SOURCE[0]}")"
export PYTHONPATH="$PWD"
/venv/bin/python -m wsim.build
/venv/bin/python -c "import jsonschema" 2>/dev/null || /venv/bin/pip install --no-index --find-links /opt/veriftools/wheels jsonschema >/dev/null 2>&1 || true
echo "wsim setup done"
