"""evidence/<id>.json writer, validated against the schema before it is written."""
import json
import os

VERIF = os.path.dirname(os.path.dirname(os.path.abspath(__file__)))
SCHEMA = os.environ.get('WSIM_EVIDENCE_SCHEMA', '/root/.vp/EVIDENCE.schema.json')

COMPONENTS = {
    'real': ['wntr python sources from the working tree of /repo', 'evaluator.cpp and network_isolation.cpp rebuilt from the working tree',
             'NewtonSolver and scipy SuperLU', 'WaterNetworkModel, controls, INP/JSON reader and writer',
             'EPANET 2.2 shared library shipped in the repository (reference replica, not rebuilt)'],
    'simulated': ['wall clock seen by the Newton solver (virtual clock)', 'fault decisions (which solve fails and how)',
                  'scratch directory per run', 'restart = new simulator object on persisted model'],
    'stub': [],
}


def write(pid, doc):
    path = os.path.join(VERIF, 'evidence', pid + '.json')
    os.makedirs(os.path.dirname(path), exist_ok=True)
    err = None
    try:
        import jsonschema
        local = os.path.join(VERIF, 'schemas', 'EVIDENCE.schema.json')
        sp = SCHEMA if os.path.exists(SCHEMA) else local
        if os.path.exists(sp):
            with open(sp) as fh:
                schema = json.load(fh)
            jsonschema.validate(doc, schema)
    except ImportError:
        pass
    except Exception as e:  # noqa
        err = str(e)[:500]
    tmp = path + '.tmp'
    with open(tmp, 'w') as fh:
        json.dump(doc, fh, indent=1, sort_keys=True, default=str)
    os.replace(tmp, path)
    return path, err
