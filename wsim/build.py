"""Rebuild the two C++ extensions from the working tree of $VERIF_REPO and make
``import wntr`` resolve to that tree (DESIGN.md section 3.1).

Nothing is ever written into the repository: objects go to /verif/.cache/ext/<hash>/.
"""
import os
import sys
import hashlib
import fcntl
import subprocess
import sysconfig
import importlib.abc
import importlib.machinery
import importlib.util

REPO = os.environ.get('VERIF_REPO', '/repo')
VERIF = os.path.dirname(os.path.dirname(os.path.abspath(__file__)))
CACHE = os.environ.get('WSIM_CACHE', os.path.join(VERIF, '.cache', 'ext'))

EXTS = {
    'wntr.sim.aml._evaluator': ('wntr/sim/aml', ['evaluator.cpp', 'evaluator_wrap.cpp'],
                                ['evaluator.hpp', 'numpy.i', 'evaluator.i']),
    'wntr.sim.network_isolation._network_isolation': (
        'wntr/sim/network_isolation', ['network_isolation.cpp', 'network_isolation_wrap.cpp'],
        ['network_isolation.hpp', 'numpy.i', 'network_isolation.i']),
}


class BuildError(Exception):
    pass


def _digest(repo):
    h = hashlib.sha256()
    h.update(sys.version.encode())
    for mod in sorted(EXTS):
        d, srcs, hdrs = EXTS[mod]
        for f in srcs + hdrs:
            p = os.path.join(repo, d, f)
            h.update(f.encode())
            if os.path.exists(p):
                with open(p, 'rb') as fh:
                    h.update(fh.read())
    return h.hexdigest()[:24]


def ensure_built(repo=REPO, verbose=False):
    """Compile (if not cached) and return {module name: path to .so}."""
    import numpy
    dig = _digest(repo)
    out = os.path.join(CACHE, dig)
    os.makedirs(out, exist_ok=True)
    suffix = sysconfig.get_config_var('EXT_SUFFIX')
    res = {}
    lock = open(os.path.join(CACHE, '.lock'), 'w')
    fcntl.flock(lock, fcntl.LOCK_EX)
    try:
        for mod in sorted(EXTS):
            d, srcs, hdrs = EXTS[mod]
            so = os.path.join(out, mod.rsplit('.', 1)[1] + suffix)
            res[mod] = so
            if os.path.exists(so):
                continue
            cmd = ['g++', '-O2', '-shared', '-fPIC', '-std=c++11', '-w',
                   '-I' + sysconfig.get_paths()['include'], '-I' + numpy.get_include(),
                   '-I' + os.path.join(repo, d)]
            cmd += [os.path.join(repo, d, s) for s in srcs]
            cmd += ['-o', so + '.tmp']
            if verbose:
                print('wsim.build:', ' '.join(cmd), file=sys.stderr)
            p = subprocess.run(cmd, capture_output=True, text=True)
            if p.returncode != 0:
                raise BuildError('compile of %s failed:\n%s' % (mod, p.stderr[-4000:]))
            os.replace(so + '.tmp', so)
        # keep the cache small: drop other digests (older trees)
        for other in os.listdir(CACHE):
            if other not in (dig, '.lock') and os.path.isdir(os.path.join(CACHE, other)):
                keep = os.environ.get('WSIM_KEEP_CACHE')
                if not keep:
                    import shutil
                    shutil.rmtree(os.path.join(CACHE, other), ignore_errors=True)
    finally:
        fcntl.flock(lock, fcntl.LOCK_UN)
        lock.close()
    return res


class _ExtFinder(importlib.abc.MetaPathFinder):
    def __init__(self, table):
        self.table = table

    def find_spec(self, fullname, path, target=None):
        so = self.table.get(fullname)
        if so is None:
            return None
        loader = importlib.machinery.ExtensionFileLoader(fullname, so)
        return importlib.util.spec_from_file_location(fullname, so, loader=loader)


_installed = False


def install(repo=REPO, verbose=False):
    """Make `import wntr` use `repo` sources and freshly built extensions."""
    global _installed
    if _installed:
        return
    if 'wntr' in sys.modules:
        raise BuildError('wntr imported before wsim.build.install()')
    table = ensure_built(repo, verbose=verbose)
    sys.meta_path.insert(0, _ExtFinder(table))
    sys.path.insert(0, repo)
    import warnings
    with warnings.catch_warnings():
        warnings.simplefilter('ignore')   # pkg_resources deprecation noise at import only
        import wntr  # noqa
        import wntr.sim.core  # noqa
    got = os.path.realpath(os.path.dirname(os.path.dirname(wntr.__file__)))
    if got != os.path.realpath(repo):
        raise BuildError('wntr imported from %s, expected %s' % (got, repo))
    import wntr.sim.aml._evaluator as ev
    if os.path.realpath(ev.__file__) != os.path.realpath(table['wntr.sim.aml._evaluator']):
        raise BuildError('evaluator extension loaded from %s' % ev.__file__)
    _installed = True


if __name__ == '__main__':
    t = ensure_built(verbose=True)
    for k, v in t.items():
        print(k, v)
