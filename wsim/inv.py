"""Invariant oracles of engine E1 evaluated on the returned result tables (and on the step snapshots taken by
the taps for internal flags).  Expected values come from refmodel.py and the scenario only."""
import math

import numpy as np

from . import refmodel as rm
from .oracles import V
from .world import adjacency, node_map, link_map

CLOSED = 0
OPEN = 1
ACTIVE = 2


def rnorms(out):
    """time -> infinity norm of the residual at the accepted solve (<= solver TOL=1e-6); tightens every bound that
    the statement gives as 'within the solver tolerance' to what the solver actually reached"""
    d = {}
    for s in out.rec.steps:
        d[int(s['t'])] = s.get('rnorm')
    return d


def tolr(rn, t, scale=1.0):
    r = None if rn is None else rn.get(int(t))
    if r is None:
        r = 1e-6
    return scale * min(1e-6, 20.0 * r + 1e-11)


def rows(tables):
    return [int(t) for t in tables.node['head'].index]


def row_view(tables, t):
    n = tables.node
    l = tables.link
    return ({k: n[k].loc[t] for k in n}, {k: l[k].loc[t] for k in l})


def ref_isolated(scn, status_row):
    closed = set(l['id'] for l in scn['links'] if int(status_row[l['id']]) == CLOSED)
    reach = rm.reachable(scn, closed)
    return set(n['id'] for n in scn['nodes'] if n['type'] == 'J' and n['id'] not in reach)


def undetermined_heads(scn, wn=None):
    """junctions whose head appears in no equation of the initial model: every link at the junction is closed, an active PRV leaving it, an active
    PSV arriving at it or an active FCV, and (demand-driven) the junction has no pressure-dependent demand equation"""
    if scn['options'].get('demand_model', 'DD') != 'DD':
        return []
    out = []
    for n in scn['nodes']:
        if n['type'] != 'J':
            continue
        links = [l for l in scn['links'] if n['id'] in (l['a'], l['b'])]
        if not links:
            continue
        blind = True
        for l in links:
            st = None
            if wn is not None:
                try:
                    st = int(wn.get_link(l['id']).status)      # 0 closed, 1 open, 2 active - at the moment run_sim raised
                except Exception:  # noqa
                    st = None
            if st == 0 or (st is None and l.get('status') == 'CLOSED'):
                continue                                        # a closed link gives the junction's head no equation
            if l['type'] == 'valve' and (st == 2 or (st is None and l.get('status', 'ACTIVE') == 'ACTIVE')):
                vt = l.get('vtype')
                if vt == 'FCV' or (vt == 'PRV' and l['a'] == n['id']) or (vt == 'PSV' and l['b'] == n['id']):
                    continue
            blind = False
        if blind:
            out.append(n['id'])
    return out



# ------------------------------------------------------------------------------------------------ C01
def c01(scn, tables, c, rn=None):
    viol = []
    adj = adjacency(scn)
    dd = scn['options'].get('demand_model', 'DD') == 'DD'
    for t in rows(tables):
        nd, lk = row_view(tables, t)
        q = lk['flowrate']
        iso = ref_isolated(scn, lk['status'])
        for n in scn['nodes']:
            nid = n['id']
            inflow = 0.0
            sabs = 0.0
            for lid, sgn in adj[nid]:
                inflow += sgn * float(q[lid])
                sabs += abs(float(q[lid]))
            d = float(nd['demand'][nid])
            lkd = float(nd['leak_demand'][nid])
            if n['type'] == 'J':
                r = inflow - d - lkd
                tol = tolr(rn, t) + 1e-13 * sabs
                c['c01.junction_rows'] = c.get('c01.junction_rows', 0) + 1
                if abs(r) > tol:
                    viol.append(V('c01.junction_balance', 'junction', 't=%d %s: inflow %.9g - demand %.9g - leak %.9g = %.3g (tol %.2g)' % (t, nid, inflow, d, lkd, r, tol)))
                if dd and nid not in iso:
                    want = rm.requested_demand(scn, n, t)
                    if abs(d - want) > 1e-12 + 1e-10 * abs(want):
                        viol.append(V('c01.dd_demand', 'junction', 't=%d %s: delivered %.12g, base*pattern*multiplier = %.12g' % (t, nid, d, want)))
            else:
                r = d - (inflow - lkd)
                tol = 1e-13 + 1e-12 * sabs
                if abs(r) > tol:
                    viol.append(V('c01.source_balance', 'tank' if n['type'] == 'T' else 'reservoir',
                                  't=%d %s: demand %.9g vs net inflow %.9g - leak %.9g' % (t, nid, d, inflow, lkd)))
        if len(viol) > 6:
            break
    return viol


# ------------------------------------------------------------------------------------------------ C02
def c02(scn, tables, c, hw_approx='default', rn=None):
    viol = []
    nm = node_map(scn)
    coeffs = {}
    for l in scn['links']:
        if l['type'] == 'pump' and l['kind'] == 'HEAD':
            coeffs[l['id']] = rm.pump_coeffs(scn['curves'][l['curve']]['points'])
    for t in rows(tables):
        nd, lk = row_view(tables, t)
        iso = ref_isolated(scn, lk['status'])
        for l in scn['links']:
            lid = l['id']
            if scn.get('link_changes'):
                # a control changed this pipe's roughness or minor-loss coefficient during the run: the law of the row uses the value of its time
                chg = [ch for ch in scn['link_changes'] if ch['link'] == lid and ch['t'] <= t]
                if chg:
                    l = dict(l)
                    for ch in sorted(chg, key=lambda x_: x_['t']):
                        l[{'minor_loss': 'minor', 'roughness': 'rough'}[ch['attr']]] = ch['value']
            q = float(lk['flowrate'][lid])
            st = int(lk['status'][lid])
            ha = float(nd['head'][l['a']])
            hb = float(nd['head'][l['b']])
            kind = l['type'] if l['type'] != 'pump' else l['kind'].lower() + '_pump'
            if l['type'] == 'valve':
                kind = l['vtype']
            if l['a'] in iso or l['b'] in iso:
                c['c02.skipped_isolated'] = c.get('c02.skipped_isolated', 0) + 1
                continue
            key = 'c02.%s.%s' % (kind, {0: 'closed', 1: 'open', 2: 'active'}.get(st, str(st)))
            c[key] = c.get(key, 0) + 1
            if st == CLOSED:
                if abs(q) > rm.QTOL:
                    viol.append(V('c02.closed_flow', kind, 't=%d %s closed but flow %.3g' % (t, lid, q)))
                continue
            dh = ha - hb
            if l['type'] == 'pipe':
                R = rm.pipe_resistance(l)
                want = rm.pipe_headloss(l, q)
                slack = tolr(rn, t) + 1e-10 * (abs(ha) + abs(hb))
                if hw_approx == 'default':
                    want += 1e-5 * math.sqrt(R) * q          # documented smoothing term of the default approximation
                    slack += 1e-9 * math.sqrt(R) * abs(q)
                elif abs(q) < 4e-4:
                    slack += 1.5 * R * 4e-4 ** rm.HW_EXP    # piecewise: polynomial below hw_q2
                if abs(dh - want) > slack:
                    viol.append(V('c02.pipe_law', 'pipe', 't=%d %s: h_start-h_end=%.9g, HW+minor(q=%.6g)=%.9g (slack %.2g)' % (t, lid, dh, q, want, slack)))
                if l.get('cv') and q < -rm.QTOL:
                    viol.append(V('c02.cv_reverse', 'cvpipe', 't=%d %s: flow %.3g' % (t, lid, q)))
            elif l['type'] == 'pump':
                if q < -rm.QTOL:
                    viol.append(V('c02.pump_reverse', kind, 't=%d %s: flow %.3g' % (t, lid, q)))
                gain = hb - ha
                if l['kind'] == 'HEAD':
                    co = coeffs.get(lid)
                    if co is None:
                        continue
                    A, B, C = co
                    if q > 1e-6:
                        want = A - B * q ** C
                        slack = tolr(rn, t) + 1e-10 * (abs(ha) + abs(hb)) + (1e-6 * A if len(scn['curves'][l['curve']]['points']) >= 3 else 1e-9 * A)
                        if abs(gain - want) > slack:
                            viol.append(V('c02.head_pump_law', 'head_pump_%dpt' % len(scn['curves'][l['curve']]['points']),
                                          't=%d %s: gain %.9g, A-B*q^C=%.9g at q=%.6g (A=%.6g B=%.6g C=%.4g)' % (t, lid, gain, want, q, A, B, C)))
                    else:
                        if gain > A + 1e-3:
                            viol.append(V('c02.head_pump_shutoff', 'head_pump', 't=%d %s: gain %.6g above shutoff head %.6g at q=%.3g' % (t, lid, gain, A, q)))
                else:
                    P = l['power']
                    got = rm.RHO * rm.G * q * gain
                    if abs(got - P) > tolr(rn, t) * 1e4 + 1e-9 * P:
                        viol.append(V('c02.power_pump_law', 'power_pump', 't=%d %s: rho*g*q*gain=%.9g W, power=%.9g W' % (t, lid, got, P)))
            else:
                vt = l['vtype']
                setting = float(lk['setting'][lid])
                mk = rm.minor_coeff(l)
                s = 1.0 if q >= 0 else -1.0
                if st == ACTIVE:
                    if vt == 'PRV':
                        p = hb - nm[l['b']]['elev']
                        if abs(p - setting) > tolr(rn, t) + 1e-10 * abs(hb):
                            viol.append(V('c02.prv_active', 'PRV', 't=%d %s: downstream pressure %.9g, setting %.9g' % (t, lid, p, setting)))
                    elif vt == 'PSV':
                        p = ha - nm[l['a']]['elev']
                        if abs(p - setting) > tolr(rn, t) + 1e-10 * abs(ha):
                            viol.append(V('c02.psv_active', 'PSV', 't=%d %s: upstream pressure %.9g, setting %.9g' % (t, lid, p, setting)))
                    elif vt == 'FCV':
                        if abs(q - setting) > tolr(rn, t):
                            viol.append(V('c02.fcv_active', 'FCV', 't=%d %s: flow %.9g, setting %.9g' % (t, lid, q, setting)))
                    elif vt == 'TCV':
                        want = s * rm.tcv_resistance(l, setting) * q * q
                        if abs(dh - want) > tolr(rn, t) + 1e-10 * (abs(ha) + abs(hb)):
                            viol.append(V('c02.tcv_active', 'TCV', 't=%d %s: dh %.9g, r*q^2=%.9g' % (t, lid, dh, want)))
                else:
                    want = s * mk * q * q
                    if abs(dh - want) > tolr(rn, t) + 1e-10 * (abs(ha) + abs(hb)):
                        viol.append(V('c02.valve_open', vt, 't=%d %s open: dh %.9g, m*q^2=%.9g (q=%.6g)' % (t, lid, dh, want, q)))
        if len(viol) > 6:
            break
    return viol


# ------------------------------------------------------------------------------------------------ C06
def c06(scn, out, c):
    """explicit-Euler volume identity over consecutive solved steps (snapshots), limits"""
    viol = []
    steps = out.rec.steps
    tanks = [n for n in scn['nodes'] if n['type'] == 'T']
    for tk in tanks:
        tid = tk['id']
        if steps:
            l0 = steps[0]['nodes'][tid]['level']
            if steps[0]['t'] == 0 and abs(l0 - tk['init']) > 1e-9:
                viol.append(V('c06.init_level', 'tank', '%s starts at level %.9g, init_level %.9g' % (tid, l0, tk['init'])))
        for a, b in zip(steps, steps[1:]):
            dt = b['t'] - a['t']
            la = a['nodes'][tid]['level']
            lb = b['nodes'][tid]['level']
            qa = a['nodes'][tid]['demand']
            va = rm.tank_volume(scn, tk, la)
            vb = rm.tank_volume(scn, tk, lb)
            c['c06.step_pairs'] = c.get('c06.step_pairs', 0) + 1
            tol = 1e-9 * (abs(va) + abs(vb)) + 1e-7
            if tk.get('vol_curve'):
                pts = scn['curves'][tk['vol_curve']]['points']
                if not (pts[0][0] <= la <= pts[-1][0] and pts[0][0] <= lb <= pts[-1][0]):
                    c['c06.skipped_outside_curve'] = c.get('c06.skipped_outside_curve', 0) + 1
                    continue
            if abs((vb - va) - qa * dt) > tol:
                sig = 'tank'
                if tk.get('vol_curve'):
                    pts = scn['curves'][tk['vol_curve']]['points']
                    sig = 'curve_tank_clipped_at_curve_end' if (abs(lb - pts[0][0]) < 1e-9 or abs(lb - pts[-1][0]) < 1e-9) else 'curve_tank'
                viol.append(V('c06.euler', sig,
                              '%s: V(%.6f)-V(%.6f)=%.9g but net inflow %.9g * dt %g = %.9g' % (tid, lb, la, vb - va, qa, dt, qa * dt)))
        qmax = 0.0
        for s in steps:
            lv = s['nodes'][tid]['level']
            q = s['nodes'][tid]['demand']
            area = rm.tank_area_at(scn, tk, lv)
            # the overshoot was produced by the flow of the step that crossed the limit and persists while the tank is
            # shut, so the allowance uses the largest flow seen so far (about two seconds of it)
            qmax = max(qmax, abs(q))
            two_s = 2.5 * qmax / area + 1e-9
            if lv < tk['min'] - two_s or lv > tk['max'] + two_s:
                sig = 'tank'
                if tk.get('vol_curve'):
                    pts = scn['curves'][tk['vol_curve']]['points']
                    sig = 'curve_tank_clipped_at_curve_end' if (abs(lv - pts[0][0]) < 1e-9 or abs(lv - pts[-1][0]) < 1e-9) else 'curve_tank'
                viol.append(V('c06.limits', sig, 't=%g %s: level %.9g outside [%.6g, %.6g] by more than 2 s of flow (%.3g)' % (s['t'], tid, lv, tk['min'], tk['max'], two_s)))
            if lv <= tk['min'] + 1e-9:
                c['c06.at_min'] = c.get('c06.at_min', 0) + 1
                if q < -rm.QTOL:
                    viol.append(V('c06.discharge_at_min', 'tank', 't=%g %s at min level %.6g discharges %.3g' % (s['t'], tid, lv, q)))
            if lv >= tk['max'] - 1e-9:
                c['c06.at_max'] = c.get('c06.at_max', 0) + 1
                if q > rm.QTOL:
                    viol.append(V('c06.fill_at_max', 'tank', 't=%g %s at max level %.6g fills %.3g' % (s['t'], tid, lv, q)))
        if len(viol) > 6:
            break
    # reported rows must carry the same levels as the solved steps
    return viol


# ------------------------------------------------------------------------------------------------ C09
def c09(scn, out, tables, c):
    viol = []
    adj = adjacency(scn)
    dd = scn['options'].get('demand_model', 'DD') == 'DD'
    nm = node_map(scn)
    prev_iso = None
    for s in out.rec.steps:
        status = {l['id']: s['links'][l['id']]['status'] for l in scn['links']}
        want = ref_isolated(scn, status)
        got = set(s['isolated'])
        if want:
            c['c09.steps_with_isolation'] = c.get('c09.steps_with_isolation', 0) + 1
        if prev_iso and not want:
            c['c09.reconnected'] = c.get('c09.reconnected', 0) + 1
        prev_iso = want
        if got != want:
            extra = sorted(got - want)
            missing = sorted(want - got)
            if extra:
                viol.append(V('c09.connected_treated_isolated', 'junction', 't=%g: %r flagged isolated but reachable from a source' % (s['t'], extra)))
            if missing:
                viol.append(V('c09.isolated_not_detected', 'junction', 't=%g: %r cut off from all sources but not flagged' % (s['t'], missing)))
            if len(viol) > 4:
                return viol
    for t in rows(tables):
        nd, lk = row_view(tables, t)
        iso = ref_isolated(scn, lk['status'])
        for nid in iso:
            bad = []
            if float(nd['demand'][nid]) != 0.0:
                bad.append('demand=%r' % float(nd['demand'][nid]))
            if float(nd['pressure'][nid]) != 0.0:
                bad.append('pressure=%r' % float(nd['pressure'][nid]))
            if float(nd['leak_demand'][nid]) != 0.0:
                bad.append('leak_demand=%r' % float(nd['leak_demand'][nid]))
            for lid, sg in adj[nid]:
                if float(lk['flowrate'][lid]) != 0.0:
                    bad.append('flow[%s]=%r' % (lid, float(lk['flowrate'][lid])))
            c['c09.isolated_rows'] = c.get('c09.isolated_rows', 0) + 1
            if bad:
                viol.append(V('c09.isolated_not_zero', 'junction', 't=%d %s isolated but %s' % (t, nid, ', '.join(bad))))
        if dd:
            for n in scn['nodes']:
                if n['type'] == 'J' and n['id'] not in iso:
                    want = rm.requested_demand(scn, n, t)
                    if want > 1e-12 and float(nd['demand'][n['id']]) == 0.0:
                        viol.append(V('c09.connected_zeroed', 'junction', 't=%d %s connected with requested demand %.6g but reported 0' % (t, n['id'], want)))
        if len(viol) > 6:
            break
    return viol


# ------------------------------------------------------------------------------------------------ C08
def leak_active_ref(lk, t):
    """active exactly from start until end: start <= t < end.  No start -> never starts; end <= start -> the window
    is empty (end < start is not generated: the statement gives it no meaning)."""
    if lk.get('removed'):
        return False
    st = lk.get('start')
    en = lk.get('end')
    if st is None:
        return False
    if t < st:
        return False
    if en is not None and t >= en:
        return False
    return True


def c08(scn, out, tables, c, rn=None):
    viol = []
    nm = node_map(scn)
    leaks = {}
    for lk in scn.get('leaks', []):
        leaks[lk['node']] = lk     # one leak per node (add_leak overwrites)
    all_times = rows(tables)
    rs = scn['options'].get('report_step')
    dur = scn['options']['duration']
    for t in all_times:
        nd, lkrow = row_view(tables, t)
        iso = ref_isolated(scn, lkrow['status'])
        for n in scn['nodes']:
            nid = n['id']
            ld = float(nd['leak_demand'][nid])
            lk = leaks.get(nid)
            if lk is None or n['type'] == 'R':
                if ld != 0.0:
                    viol.append(V('c08.leak_without_leak', n['type'], 't=%d %s has leak_demand %r but no leak' % (t, nid, ld)))
                continue
            act = leak_active_ref(lk, t)
            if nid in iso:
                # a junction cut off from every source reports zero pressure, so "zero otherwise" applies whatever the window says
                c['c08.isolated_leaky_rows'] = c.get('c08.isolated_leaky_rows', 0) + 1
                if act:
                    c['c08.isolated_active_leak_rows'] = c.get('c08.isolated_active_leak_rows', 0) + 1
                if ld != 0.0:
                    viol.append(V('c08.isolated_node_leaks', n['type'], 't=%d %s is cut off from every source (reported pressure %r) but leak_demand is %r' % (t, nid, float(nd['pressure'][nid]), ld)))
                continue
            if not act:
                c['c08.inactive_rows'] = c.get('c08.inactive_rows', 0) + 1
                if ld != 0.0:
                    viol.append(V('c08.inactive_leak_flows', 'removed' if lk.get('removed') else 'window',
                                  't=%d %s: leak_demand %r outside [start=%r,end=%r)' % (t, nid, ld, lk.get('start'), lk.get('end'))))
                continue
            p = float(nd['pressure'][nid])
            c['c08.active_rows'] = c.get('c08.active_rows', 0) + 1
            if p > 1e-4:
                want = rm.leak_flow(lk['cd'], lk['area'], p)
                if abs(ld - want) > 1e-9 * want + tolr(rn, t):
                    viol.append(V('c08.orifice_law', n['type'], 't=%d %s: leak_demand %.9g, Cd*A*sqrt(2gp)=%.9g at p=%.6g' % (t, nid, ld, want, p)))
            elif p <= 0:
                c['c08.active_nonpositive_pressure'] = c.get('c08.active_nonpositive_pressure', 0) + 1
                if abs(ld) > tolr(rn, t) + 1e-11 * abs(p):
                    viol.append(V('c08.leak_at_nonpositive_pressure', n['type'], 't=%d %s: leak_demand %.3g at p=%.6g' % (t, nid, ld, p)))
            else:
                hi = rm.leak_flow(lk['cd'], lk['area'], 1e-4)
                if ld < -1e-9 - tolr(rn, t) or ld > hi * 1.0001 + 1e-9 + tolr(rn, t):    # the leak flow is a solved variable: same residual slack as the orifice law
                    viol.append(V('c08.leak_band', n['type'], 't=%d %s: leak_demand %.3g in smoothing band p=%.3g' % (t, nid, ld, p)))
        if len(viol) > 6:
            break
    if rs == 'ALL':
        for lk in scn.get('leaks', []):
            if lk.get('removed'):
                continue
            for key in ('start', 'end'):
                tt = lk.get(key)
                last_grid = (dur // scn['options']['hyd_step']) * scn['options']['hyd_step']
                if tt is not None and 0 < tt <= last_grid and tt not in all_times and tables.error_code is None:
                    # only when the switch changes something: an empty window or a missing start make it a no-op
                    if lk.get('start') is None or (lk.get('end') is not None and lk['end'] <= lk['start']):
                        continue
                    viol.append(V('c08.window_edge_not_a_step', key, 'leak %s %s=%d is not a solved step with report ALL (steps near: %r)' %
                                  (lk['node'], key, tt, [x for x in all_times if abs(x - tt) <= scn['options']['hyd_step']])))
    return viol


# ------------------------------------------------------------------------------------------------ C07
def pdd_params(scn, n, t=None):
    """(Pmin, Preq, exponent) of junction n - at time t when the scenario changes a junction's own parameter during the run"""
    o = scn['options']
    p = dict(n.get('pdd') or {})
    if t is not None:
        key = {'minimum_pressure': 'pmin', 'required_pressure': 'preq', 'pressure_exponent': 'pexp'}
        for ch in sorted(scn.get('pdd_changes', []), key=lambda c_: c_['t']):
            if ch['node'] == n['id'] and ch['t'] <= t:
                p[key[ch['attr']]] = ch['value']
    return (p.get('pmin', o.get('pmin', 0.0)), p.get('preq', o.get('preq', 0.07)), p.get('pexp', o.get('pexp', 0.5)))


def c07(scn, tables, c, rn=None):
    viol = []
    delta = 0.05
    samples = {}
    for t in rows(tables):
        nd, lk = row_view(tables, t)
        iso = ref_isolated(scn, lk['status'])
        for n in scn['nodes']:
            if n['type'] != 'J' or n['id'] in iso:
                continue
            D = rm.requested_demand(scn, n, t)
            d = float(nd['demand'][n['id']])
            p = float(nd['pressure'][n['id']])
            pmin, preq, ex = pdd_params(scn, n, t)
            if D <= 1e-9:
                if abs(d) > 1e-9:
                    viol.append(V('c07.zero_request', 'junction', 't=%d %s requested 0 but delivered %.3g' % (t, n['id'], d)))
                continue
            frac = d / D
            samples.setdefault((n['id'], pmin, preq, ex), []).append((p, frac, t))
            lo_band = pmin < p < pmin + delta
            hi_band = preq - delta < p < preq
            if preq - pmin <= 2 * delta:
                # bands overlap: only the bracket [0,1] and monotonicity can be asserted
                c['c07.overlapping_bands'] = c.get('c07.overlapping_bands', 0) + 1
                if frac < -1e-6 or frac > 1 + 1e-6:
                    viol.append(V('c07.bracket', 'overlap', 't=%d %s d/D=%.9g p=%.6g' % (t, n['id'], frac, p)))
                continue
            g = rm.pdd_fraction(p, pmin, preq, ex)
            if lo_band or hi_band:
                c['c07.band_samples'] = c.get('c07.band_samples', 0) + 1
                if lo_band:
                    lo, hi = 0.0, rm.pdd_fraction(pmin + delta, pmin, preq, ex)
                else:
                    lo, hi = rm.pdd_fraction(preq - delta, pmin, preq, ex), 1.0
                if frac < lo - 1e-9 - tolr(rn, t) / D or frac > hi + 1e-9 + tolr(rn, t) / D:
                    viol.append(V('c07.band_bracket', 'low' if lo_band else 'high', 't=%d %s: d/D=%.9g outside [%.6g,%.6g] at p=%.6g (pmin=%g preq=%g exp=%g)' % (t, n['id'], frac, lo, hi, p, pmin, preq, ex)))
            else:
                key = 'c07.below' if p <= pmin else ('c07.above' if p >= preq else 'c07.middle')
                c[key] = c.get(key, 0) + 1
                slack = 1e-9 + 2e-11 * abs(p - pmin) + tolr(rn, t) / D
                if abs(frac - g) > slack:
                    viol.append(V('c07.curve', 'below' if p <= pmin else ('above' if p >= preq else 'middle'),
                                  't=%d %s: d/D=%.9g, documented %.9g at p=%.6g (pmin=%g preq=%g exp=%g)' % (t, n['id'], frac, g, p, pmin, preq, ex)))
        if len(viol) > 6:
            return viol
    # history check: monotone and continuous in pressure per junction
    nmap = dict((n_['id'], n_) for n_ in scn['nodes'])
    for (nid_, pmin, preq, ex) in sorted(samples, key=str):
        n = nmap[nid_]
        if preq - pmin <= 2 * delta:
            continue
        ss = sorted(samples[(nid_, pmin, preq, ex)])
        for (p0, f0, t0), (p1, f1, t1) in zip(ss, ss[1:]):
            if f1 < f0 - 1e-8 - (tolr(rn, t0) + tolr(rn, t1)) / max(min(rm.requested_demand(scn, n, t0), rm.requested_demand(scn, n, t1)), 1e-9):
                viol.append(V('c07.monotone', 'junction', '%s: d/D falls from %.9g (p=%.6g,t=%d) to %.9g (p=%.6g,t=%d)' % (n['id'], f0, p0, t0, f1, p1, t1)))
                break
            # continuity: the jump between neighbouring samples is bounded by the largest slope the documented
            # curve (power law, or a cubic blend inside a band) can have between them
            if p1 - p0 < 0.02:
                rngp = preq - pmin
                g_lo = rm.pdd_fraction(pmin + delta, pmin, preq, ex)
                g_hi = rm.pdd_fraction(preq - delta, pmin, preq, ex)
                L = 1e-9
                if p1 > pmin and p0 < pmin + delta:
                    L = max(L, 3.0 * g_lo / delta, ex * g_lo / delta)
                if p1 > pmin + delta and p0 < preq - delta:
                    x = max(p0 - pmin, delta) / rngp
                    L = max(L, ex * x ** (ex - 1.0) / rngp)
                if p1 > preq - delta and p0 < preq:
                    L = max(L, 3.0 * (1.0 - g_hi) / delta, ex * g_hi / (rngp - delta))
                D0 = min(rm.requested_demand(scn, n, t0), rm.requested_demand(scn, n, t1))
                if abs(f1 - f0) > L * (p1 - p0) + 1e-8 + (tolr(rn, t0) + tolr(rn, t1)) / max(D0, 1e-9):
                    viol.append(V('c07.continuity', 'junction', '%s: d/D jumps %.9g -> %.9g between p=%.6g and p=%.6g (max slope %.4g)' % (n['id'], f0, f1, p0, p1, L)))
                    break
    return viol
