"""wsim - deterministic simulation with fault injection for USEPA/WNTR (see /verif/DESIGN.md)."""
