"""Engine E2: the WaterNetworkModel as a store.  A seeded history of edit operations is executed against the real
model and against a trivial mirror (plain dicts kept by the harness).  Two fault families sit inside the history:
operations that must be REFUSED (element still in use) and RESTARTS that keep only a persisted image
(pickle / deepcopy / dict / JSON file / INP file in a unit system and version); the history continues on the
reloaded model.  See DESIGN.md section 5.
"""
import copy
import io
import json
import os
import pickle
from collections import OrderedDict

from . import world
from .oracles import V

UNITS = ['CFS', 'GPM', 'MGD', 'IMGD', 'AFD', 'LPS', 'LPM', 'MLD', 'CMH', 'CMD']
VTYPES = ['PRV', 'PSV', 'PBV', 'FCV', 'TCV', 'GPV']
LTYPE = {'pipe': 'Pipe', 'pump': 'Pump', 'valve': 'Valve'}


# ---------------------------------------------------------------------------------------------------- mirror
class Mirror(object):
    def __init__(self):
        self.nodes = OrderedDict()
        self.links = OrderedDict()
        self.patterns = OrderedDict()
        self.curves = OrderedDict()
        self.sources = OrderedDict()
        self.controls = OrderedDict()

    def clone(self):
        return copy.deepcopy(self)

    # ---- derived facts
    def links_at(self, n):
        return [k for k, l in self.links.items() if n in (l['a'], l['b'])]

    def node_users(self, n):
        u = set((k, LTYPE[l['type']]) for k, l in self.links.items() if n in (l['a'], l['b']))
        u |= set((k, 'Source') for k, s in self.sources.items() if s['node'] == n)
        return u

    def pattern_users(self, p):
        u = set()
        for k, n in self.nodes.items():
            if n['type'] == 'J' and any(d[1] == p for d in n['demands']):
                u.add((k, 'Junction'))
            if n['type'] == 'R' and n.get('pattern') == p:
                u.add((k, 'Reservoir'))
        for k, l in self.links.items():
            if l['type'] == 'pump' and l.get('pattern') == p:
                u.add((k, 'Pump'))
        for k, s in self.sources.items():
            if s.get('pattern') == p:
                u.add((k, 'Source'))
        return u

    def curve_users(self, c):
        u = set()
        for k, n in self.nodes.items():
            if n['type'] == 'T' and n.get('vol_curve') == c:
                u.add((k, 'Tank'))
        for k, l in self.links.items():
            if l['type'] == 'pump' and l.get('ptype') == 'HEAD' and l.get('param') == c:
                u.add((k, 'Pump'))
            if l['type'] == 'valve' and l.get('vtype') == 'GPV' and l.get('curve') == c:
                u.add((k, 'Valve'))
        return u

    def curve_referenced(self, c):
        """users plus references the registries do not track (pump efficiency curves)"""
        return bool(self.curve_users(c)) or any(l.get('eff') == c for l in self.links.values())

    def controls_requiring(self, kind, name):
        return [k for k, c in self.controls.items() if (kind, name) in c['requires']]


def control_requires(spec):
    req = set()

    def walk(c):
        if c['t'] in ('and', 'or'):
            walk(c['a'])
            walk(c['b'])
        elif c['t'] == 'level':
            req.add(('n', c['tank']))
        elif c['t'] == 'pressure':
            req.add(('n', c['node']))
    walk(spec['cond'])
    for a in spec['then'] + spec.get('else', []):
        req.add(('l', a['link']))
    return req


# ---------------------------------------------------------------------------------------------------- interpreter (mirror side)
def mirror_step(m, op):
    """-> 'skip' (precondition fails: op is dropped), 'ok' (mirror updated), 'refuse' (must be refused, mirror unchanged),
    'restart'"""
    k = op['op']
    if k == 'add_pattern':
        if op['name'] in m.patterns:
            return 'skip'
        m.patterns[op['name']] = list(op['mults'])
        return 'ok'
    if k == 'add_curve':
        if op['name'] in m.curves:
            return 'skip'
        m.curves[op['name']] = {'type': op['ctype'], 'points': [list(p) for p in op['points']]}
        return 'ok'
    if k == 'add_junction':
        if op['name'] in m.nodes or (op.get('pattern') and op['pattern'] not in m.patterns):
            return 'skip'
        m.nodes[op['name']] = {'type': 'J', 'demands': [[op['base'], op.get('pattern'), op.get('cat')]], 'elev': op['elev']}
        return 'ok'
    if k == 'add_tank':
        if op['name'] in m.nodes:
            return 'skip'
        vc = op.get('vol_curve')
        if vc:
            if vc not in m.curves or m.curves[vc]['type'] != 'VOLUME':
                return 'skip'
            pts = m.curves[vc]['points']
            if pts[0][0] > op['min'] or pts[-1][0] < op['max']:
                return 'skip'
        m.nodes[op['name']] = {'type': 'T', 'vol_curve': vc, 'min': op['min'], 'max': op['max']}
        return 'ok'
    if k == 'add_reservoir':
        if op['name'] in m.nodes or (op.get('pattern') and op['pattern'] not in m.patterns):
            return 'skip'
        m.nodes[op['name']] = {'type': 'R', 'pattern': op.get('pattern')}
        return 'ok'
    if k in ('add_pipe', 'add_pump', 'add_valve'):
        if op['name'] in m.links or op['a'] not in m.nodes or op['b'] not in m.nodes or op['a'] == op['b']:
            return 'skip'
        if k == 'add_pipe':
            m.links[op['name']] = {'type': 'pipe', 'a': op['a'], 'b': op['b'], 'cv': bool(op.get('cv')), 'status': op.get('status', 'OPEN')}
        elif k == 'add_pump':
            if op.get('pattern') and op['pattern'] not in m.patterns:
                return 'skip'
            if op['ptype'] == 'HEAD' and (op['param'] not in m.curves or m.curves[op['param']]['type'] != 'HEAD'):
                return 'skip'
            m.links[op['name']] = {'type': 'pump', 'a': op['a'], 'b': op['b'], 'ptype': op['ptype'], 'param': op['param'], 'pattern': op.get('pattern')}
        else:
            if op['vtype'] == 'GPV' and (op.get('curve') not in m.curves or m.curves[op['curve']]['type'] != 'HEADLOSS'):
                return 'skip'
            if op['vtype'] in ('PRV', 'PSV', 'FCV') and (m.nodes[op['a']]['type'] != 'J' or m.nodes[op['b']]['type'] != 'J'):
                return 'refuse'    # the API refuses these valves next to a tank or reservoir (documented): the model must stay as it was
            m.links[op['name']] = {'type': 'valve', 'a': op['a'], 'b': op['b'], 'vtype': op['vtype'], 'curve': op.get('curve')}
        return 'ok'
    if k == 'add_source':
        if op['name'] in m.sources or op['node'] not in m.nodes or (op.get('pattern') and op['pattern'] not in m.patterns):
            return 'skip'
        m.sources[op['name']] = {'node': op['node'], 'pattern': op.get('pattern')}
        return 'ok'
    if k == 'add_control':
        if op['name'] in m.controls:
            return 'skip'
        req = control_requires(op['spec'])
        for kind, name in req:
            if kind == 'n' and name not in m.nodes:
                return 'skip'
            if kind == 'l' and name not in m.links:
                return 'skip'
        # conditions need the right node types; actions the right attribute for the link type
        if not _control_wellformed(m, op['spec']):
            return 'skip'
        m.controls[op['name']] = {'kind': op['spec']['kind'], 'requires': req, 'canonical': cond_canonical(op['spec']['cond'])}
        return 'ok'
    if k == 'add_demand':
        n = m.nodes.get(op['node'])
        if n is None or n['type'] != 'J' or (op.get('pattern') and op['pattern'] not in m.patterns):
            return 'skip'
        n['demands'].append([op['base'], op.get('pattern'), op.get('cat')])
        return 'ok'
    if k == 'remove_node':
        if op['name'] not in m.nodes:
            return 'skip'
        if m.node_users(op['name']):
            return 'refuse'
        ctl = m.controls_requiring('n', op['name'])
        if ctl and not op.get('with_control'):
            return 'refuse'
        for c in ctl:
            del m.controls[c]
        del m.nodes[op['name']]
        return 'ok'
    if k == 'remove_link':
        if op['name'] not in m.links:
            return 'skip'
        ctl = m.controls_requiring('l', op['name'])
        if ctl and not op.get('with_control'):
            return 'refuse'
        for c in ctl:
            del m.controls[c]
        del m.links[op['name']]
        return 'ok'
    if k == 'remove_pattern':
        if op['name'] not in m.patterns:
            return 'skip'
        if m.pattern_users(op['name']):
            return 'refuse'
        del m.patterns[op['name']]
        return 'ok'
    if k == 'remove_curve':
        if op['name'] not in m.curves:
            return 'skip'
        if m.curve_users(op['name']):
            return 'refuse'
        if any(l.get('eff') == op['name'] for l in m.links.values()):
            return 'skip'       # efficiency curves are not usage-tracked; removing one that a pump holds is not generated
        del m.curves[op['name']]
        return 'ok'
    if k == 'remove_source':
        if op['name'] not in m.sources:
            return 'skip'
        del m.sources[op['name']]
        return 'ok'
    if k == 'remove_control':
        if op['name'] not in m.controls:
            return 'skip'
        del m.controls[op['name']]
        return 'ok'
    if k == 'set_end':
        l = m.links.get(op['link'])
        if l is None or op['node'] not in m.nodes:
            return 'skip'
        other = l['b'] if op['which'] == 'start' else l['a']
        if op['node'] == other:
            return 'skip'
        if l['type'] == 'valve' and l['vtype'] in ('PRV', 'PSV', 'FCV') and m.nodes[op['node']]['type'] != 'J':
            return 'skip'
        l['a' if op['which'] == 'start' else 'b'] = op['node']
        return 'ok'
    if k == 'reverse_link':
        l = m.links.get(op['link'])
        if l is None:
            return 'skip'
        l['a'], l['b'] = l['b'], l['a']
        return 'ok'
    if k == 'set_ref':
        kind, val = op['kind'], op.get('value')
        if kind == 'speed_pattern':
            l = m.links.get(op['elem'])
            if l is None or l['type'] != 'pump' or (val and val not in m.patterns):
                return 'skip'
            l['pattern'] = val
        elif kind == 'pump_curve':
            l = m.links.get(op['elem'])
            if l is None or l['type'] != 'pump' or l['ptype'] != 'HEAD' or val not in m.curves or m.curves[val]['type'] != 'HEAD':
                return 'skip'
            l['param'] = val
        elif kind == 'head_pattern':
            n = m.nodes.get(op['elem'])
            if n is None or n['type'] != 'R' or (val and val not in m.patterns):
                return 'skip'
            n['pattern'] = val
        elif kind == 'vol_curve':
            n = m.nodes.get(op['elem'])
            if n is None or n['type'] != 'T':
                return 'skip'
            if val:
                if val not in m.curves or m.curves[val]['type'] != 'VOLUME':
                    return 'skip'
                pts = m.curves[val]['points']
                if pts[0][0] > n['min'] or pts[-1][0] < n['max']:
                    return 'skip'
            n['vol_curve'] = val
        else:
            return 'skip'
        return 'ok'
    if k == 'set_attr':
        reg = m.nodes if op['kind'] == 'node' else m.links
        e = reg.get(op['name'])
        if e is None:
            return 'skip'
        if op['attr'] in ('initial_setting',) and e['type'] not in ('valve', 'pump'):
            return 'skip'
        if op['attr'] == 'initial_status' and e['type'] != 'pipe' and op['value'] == 'CV':
            return 'skip'
        if op['attr'] in ('emitter_coefficient', 'minimum_pressure', 'required_pressure', 'pressure_exponent') and e.get('type') != 'J':
            return 'skip'
        if op['attr'] in ('bulk_coeff', 'wall_coeff', 'cv') and e.get('type') != 'pipe':
            return 'skip'
        if op['attr'] in ('efficiency_curve', 'energy_price', 'energy_pattern') and e.get('type') != 'pump':
            return 'skip'
        if op['attr'] == 'efficiency_curve' and (op['value'] not in m.curves or m.curves[op['value']]['type'] != 'EFFICIENCY'):
            return 'skip'
        if op['attr'] == 'energy_pattern' and op['value'] not in m.patterns:
            return 'skip'
        if op['attr'] == 'efficiency_curve':
            e['eff'] = op['value']
        if e.get('type') == 'pipe' and op['attr'] == 'initial_status':
            if e.get('cv') and op['value'] != 'OPEN':
                return 'skip'       # the INP pipe status field is one of OPEN / CLOSED / CV
            e['status'] = op['value']
        if e.get('type') == 'pipe' and op['attr'] == 'cv':
            if op['value'] and e.get('status') != 'OPEN':
                return 'skip'
            e['cv'] = bool(op['value'])
        if op['attr'] in ('mixing_model', 'tank_bulk', 'mixing_2comp') and e.get('type') != 'T':
            return 'skip'
        if op['attr'] == 'mixing_model' and op['value'] == '2COMP':
            return 'skip'
        return 'ok'
    if k in ('add_leak', 'remove_leak'):
        n = m.nodes.get(op['node'])
        if n is None or n['type'] not in ('J', 'T'):
            return 'skip'
        pre = ('junction' if n['type'] == 'J' else 'tank') + op['node']
        names = (pre + 'start_leak_control', pre + 'end_leak_control')
        if k == 'add_leak':
            if names[0] in m.controls or names[1] in m.controls:
                return 'skip'        # a second add_leak without remove_leak is refused by add_control (duplicate name)
            if op.get('start') is not None:
                m.controls[names[0]] = {'kind': 'simple', 'requires': set([('n', op['node'])]), 'leak': True}
            if op.get('end') is not None:
                m.controls[names[1]] = {'kind': 'simple', 'requires': set([('n', op['node'])]), 'leak': True}
        else:
            m.controls.pop(names[0], None)
            m.controls.pop(names[1], None)
        return 'ok'
    if k in ('set_option', 'set_options'):
        return 'ok'
    if k == 'restart':
        return 'restart'
    raise ValueError('unknown op %r' % (op,))


def cond_canonical(c):
    """EPANET rule text has no parentheses: a premise list reads as a conjunction of OR-groups.  Only trees of that shape
    (left-nested AND chain whose operands are left-nested OR chains of simple conditions) can be written and read back."""
    def or_chain(x):
        if x['t'] == 'or':
            return or_chain(x['a']) and x['b']['t'] not in ('and', 'or')
        return x['t'] != 'and'
    if c['t'] == 'and':
        return cond_canonical(c['a']) and or_chain(c['b'])
    return or_chain(c)


def _control_wellformed(m, spec):
    def walk(c):
        if c['t'] in ('and', 'or'):
            return walk(c['a']) and walk(c['b'])
        if c['t'] == 'level':
            return m.nodes[c['tank']]['type'] == 'T'
        if c['t'] == 'pressure':
            return m.nodes[c['node']]['type'] == 'J'
        return True
    if not walk(spec['cond']):
        return False
    for a in spec['then'] + spec.get('else', []):
        l = m.links[a['link']]
        if a['attr'] == 'setting' and l['type'] == 'pipe':
            return False
        if a['attr'] == 'status' and a['value'] == 'ACTIVE' and l['type'] != 'valve':
            return False
    if spec['kind'] == 'simple' and (spec['cond']['t'] in ('and', 'or') or len(spec['then']) != 1 or spec.get('else')):
        return False
    return True


# ---------------------------------------------------------------------------------------------------- interpreter (real side)
def real_step(wn, op):
    """execute the operation on the real model through the public API; exceptions propagate"""
    import wntr
    from wntr.network import controls as ct
    k = op['op']
    if k == 'add_pattern':
        wn.add_pattern(op['name'], list(op['mults']))
    elif k == 'add_curve':
        wn.add_curve(op['name'], op['ctype'], [tuple(p) for p in op['points']])
    elif k == 'add_junction':
        wn.add_junction(op['name'], base_demand=op['base'], demand_pattern=op.get('pattern'), elevation=op['elev'],
                        coordinates=tuple(op.get('xy', (0.0, 0.0))), demand_category=op.get('cat'))
    elif k == 'add_tank':
        wn.add_tank(op['name'], elevation=op['elev'], init_level=op['init'], min_level=op['min'], max_level=op['max'],
                    diameter=op['diam'], min_vol=op.get('min_vol', 0.0), vol_curve=op.get('vol_curve'),
                    overflow=bool(op.get('overflow', False)), coordinates=tuple(op.get('xy', (0.0, 0.0))))
    elif k == 'add_reservoir':
        wn.add_reservoir(op['name'], base_head=op['head'], head_pattern=op.get('pattern'), coordinates=tuple(op.get('xy', (0.0, 0.0))))
    elif k == 'add_pipe':
        wn.add_pipe(op['name'], op['a'], op['b'], length=op['len'], diameter=op['diam'], roughness=op['rough'],
                    minor_loss=op.get('minor', 0.0), initial_status=op.get('status', 'OPEN'), check_valve=bool(op.get('cv', False)))
    elif k == 'add_pump':
        wn.add_pump(op['name'], op['a'], op['b'], pump_type=op['ptype'], pump_parameter=op['param'], speed=op.get('speed', 1.0),
                    pattern=op.get('pattern'), initial_status=op.get('status', 'OPEN'))
    elif k == 'add_valve':
        wn.add_valve(op['name'], op['a'], op['b'], diameter=op['diam'], valve_type=op['vtype'], minor_loss=op.get('minor', 0.0),
                     initial_setting=(op['curve'] if op['vtype'] == 'GPV' else op['setting']), initial_status=op.get('status', 'ACTIVE'))
    elif k == 'add_source':
        wn.add_source(op['name'], op['node'], op['stype'], op['quality'], op.get('pattern'))
    elif k == 'add_control':
        spec = op['spec']
        cond = world._cond(wn, spec['cond'])
        then = [world._action(wn, a) for a in spec['then']]
        if spec['kind'] == 'simple':
            c = ct.Control(cond, then[0], priority=spec.get('priority', 3), name=op['name'])
        else:
            els = [world._action(wn, a) for a in spec.get('else', [])]
            c = ct.Rule(cond, then, els if els else None, priority=spec.get('priority', 3), name=op['name'])
        wn.add_control(op['name'], c)
    elif k == 'add_demand':
        wn.get_node(op['node']).add_demand(op['base'], op.get('pattern'), op.get('cat'))
    elif k == 'remove_node':
        wn.remove_node(op['name'], with_control=bool(op.get('with_control')))
    elif k == 'remove_link':
        wn.remove_link(op['name'], with_control=bool(op.get('with_control')))
    elif k == 'remove_pattern':
        wn.remove_pattern(op['name'])
    elif k == 'remove_curve':
        wn.remove_curve(op['name'])
    elif k == 'remove_source':
        wn.remove_source(op['name'])
    elif k == 'remove_control':
        wn.remove_control(op['name'])
    elif k == 'set_end':
        l = wn.get_link(op['link'])
        if op['which'] == 'start':
            l.start_node = wn.get_node(op['node'])
        else:
            l.end_node = wn.get_node(op['node'])
    elif k == 'reverse_link':
        import wntr.morph.link as _ml
        _ml.reverse_link(wn, op['link'], return_copy=False)
    elif k == 'set_ref':
        kind, val = op['kind'], op.get('value')
        if kind == 'speed_pattern':
            wn.get_link(op['elem']).speed_pattern_name = val
        elif kind == 'pump_curve':
            wn.get_link(op['elem']).pump_curve_name = val
        elif kind == 'head_pattern':
            wn.get_node(op['elem']).head_pattern_name = val
        elif kind == 'vol_curve':
            wn.get_node(op['elem']).vol_curve_name = val
    elif k == 'set_attr':
        e = wn.get_node(op['name']) if op['kind'] == 'node' else wn.get_link(op['name'])
        a, v = op['attr'], op['value']
        if a == 'vertices':
            e.vertices = [tuple(p) for p in v]
        elif a == 'cv':
            e.check_valve = bool(v)
        elif a == 'efficiency_curve':
            e.efficiency = wn.get_curve(v)
        elif a == 'tank_bulk':
            e.bulk_coeff = v
        elif a == 'mixing_2comp':
            e.mixing_model = '2COMP'      # a two-compartment tank needs its fraction
            e.mixing_fraction = v
        else:
            setattr(e, a, v)
    elif k == 'add_leak':
        wn.get_node(op['node']).add_leak(wn, area=op['area'], discharge_coeff=op.get('cd', 0.75), start_time=op.get('start'), end_time=op.get('end'))
    elif k == 'remove_leak':
        wn.get_node(op['node']).remove_leak(wn)
    elif k == 'set_options':
        for path, value in op['items']:
            real_step(wn, {'op': 'set_option', 'path': path, 'value': value})
    elif k == 'set_option':
        obj = wn.options
        path = op['path'].split('.')
        for p in path[:-1]:
            obj = getattr(obj, p)
        setattr(obj, path[-1], op['value'])
    else:
        raise ValueError('unknown op %r' % (op,))


# ---------------------------------------------------------------------------------------------------- views vs mirror (C14)
def _usage_map(reg):
    out = {}
    for k, v in reg.usage():
        out[k if isinstance(k, str) else repr(k)] = set((str(a), str(b)) for a, b in v)
    return out


def state_digest(wn):
    """everything a refused operation must leave unchanged"""
    d = wn.to_dict()
    d.pop('version', None)
    d.pop('comment', None)
    dd = json.dumps(d, sort_keys=True, default=str)
    us = []
    for nm in ('_node_reg', '_link_reg', '_pattern_reg', '_curve_reg', '_sources'):
        reg = getattr(wn, nm)
        um = _usage_map(reg)
        us.append((nm, sorted((k, sorted(v)) for k, v in um.items() if v)))
    typed = [sorted(getattr(wn._node_reg, s)) for s in ('_junctions', '_tanks', '_reservoirs')]
    typed += [sorted(getattr(wn._link_reg, s)) for s in ('_pipes', '_pumps', '_head_pumps', '_power_pumps', '_valves', '_prvs', '_psvs', '_pbvs', '_tcvs', '_fcvs', '_gpvs')]
    return json.dumps([dd, us, typed, sorted(wn.control_name_list)], sort_keys=True, default=str)


def views_check(wn, m, c):
    """every view of the real model against the mirror -> list of violations"""
    import wntr
    from wntr.network import elements as el
    viol = []

    def cmp_names(label, got, want):
        try:
            got = list(got)
        except Exception as e:  # noqa
            viol.append(V('c14.view_raises', label, '%s: %s: %s' % (label, type(e).__name__, e)))
            return
        if sorted(got) != sorted(want) or len(got) != len(set(got)):
            viol.append(V('c14.name_list', label, '%s = %r, existing elements %r' % (label, sorted(got)[:12], sorted(want)[:12])))

    nodes = list(m.nodes)
    J = [k for k, n in m.nodes.items() if n['type'] == 'J']
    T = [k for k, n in m.nodes.items() if n['type'] == 'T']
    R = [k for k, n in m.nodes.items() if n['type'] == 'R']
    links = list(m.links)
    P = [k for k, l in m.links.items() if l['type'] == 'pipe']
    U = [k for k, l in m.links.items() if l['type'] == 'pump']
    UH = [k for k, l in m.links.items() if l['type'] == 'pump' and l['ptype'] == 'HEAD']
    UP = [k for k, l in m.links.items() if l['type'] == 'pump' and l['ptype'] == 'POWER']
    VV = [k for k, l in m.links.items() if l['type'] == 'valve']
    byv = {vt: [k for k, l in m.links.items() if l['type'] == 'valve' and l['vtype'] == vt] for vt in VTYPES}
    for label, want in (('node_name_list', nodes), ('junction_name_list', J), ('tank_name_list', T), ('reservoir_name_list', R),
                        ('link_name_list', links), ('pipe_name_list', P), ('pump_name_list', U), ('head_pump_name_list', UH),
                        ('power_pump_name_list', UP), ('valve_name_list', VV), ('prv_name_list', byv['PRV']), ('psv_name_list', byv['PSV']),
                        ('pbv_name_list', byv['PBV']), ('tcv_name_list', byv['TCV']), ('fcv_name_list', byv['FCV']), ('gpv_name_list', byv['GPV']),
                        ('pattern_name_list', list(m.patterns)), ('curve_name_list', list(m.curves)), ('source_name_list', list(m.sources)),
                        ('control_name_list', list(m.controls))):
        try:
            got = getattr(wn, label)
        except Exception as e:  # noqa
            viol.append(V('c14.view_raises', label, '%s: %s: %s' % (label, type(e).__name__, e)))
            continue
        cmp_names(label, got, want)
    for label, want in (('num_nodes', nodes), ('num_junctions', J), ('num_tanks', T), ('num_reservoirs', R), ('num_links', links),
                        ('num_pipes', P), ('num_pumps', U), ('num_valves', VV), ('num_patterns', m.patterns), ('num_curves', m.curves),
                        ('num_sources', m.sources), ('num_controls', m.controls)):
        try:
            got = getattr(wn, label)
        except Exception as e:  # noqa
            viol.append(V('c14.view_raises', label, '%s: %s: %s' % (label, type(e).__name__, e)))
            continue
        if got != len(want):
            viol.append(V('c14.count', label, '%s = %r, existing %d' % (label, got, len(want))))
    for label, want in (('nodes', nodes), ('junctions', J), ('tanks', T), ('reservoirs', R), ('links', links), ('pipes', P), ('pumps', U),
                        ('head_pumps', UH), ('power_pumps', UP), ('valves', VV), ('prvs', byv['PRV']), ('psvs', byv['PSV']), ('pbvs', byv['PBV']),
                        ('tcvs', byv['TCV']), ('fcvs', byv['FCV']), ('gpvs', byv['GPV']), ('patterns', list(m.patterns)), ('curves', list(m.curves)),
                        ('sources', list(m.sources)), ('controls', list(m.controls))):
        try:
            it = getattr(wn, label)
            got = [name for name, obj in it()]
        except Exception as e:  # noqa
            viol.append(V('c14.iterator_raises', label, 'iterating wn.%s(): %s: %s' % (label, type(e).__name__, e)))
            continue
        cmp_names(label + '()', got, want)
    for label, cls, want in (('nodes(Junction)', el.Junction, J), ('nodes(Tank)', el.Tank, T), ('nodes(Reservoir)', el.Reservoir, R)):
        try:
            got = [n for n, o in wn.nodes(cls)]
        except Exception as e:  # noqa
            viol.append(V('c14.iterator_raises', label, '%s: %s: %s' % (label, type(e).__name__, e)))
            continue
        cmp_names(label, got, want)
    for label, cls, want in (('links(Pipe)', el.Pipe, P), ('links(Pump)', el.Pump, U), ('links(Valve)', el.Valve, VV)):
        try:
            got = [n for n, o in wn.links(cls)]
        except Exception as e:  # noqa
            viol.append(V('c14.iterator_raises', label, '%s: %s: %s' % (label, type(e).__name__, e)))
            continue
        cmp_names(label, got, want)
    try:
        d2 = wn.describe(level=2)
        want2 = {'Nodes': {'Junctions': len(J), 'Tanks': len(T), 'Reservoirs': len(R)},
                 'Links': {'Pipes': len(P), 'Pumps': {'Head': len(UH), 'Power': len(UP)},
                           'Valves': {vt: len(byv[vt]) for vt in VTYPES}},
                 'Patterns': len(m.patterns), 'Sources': len(m.sources), 'Controls': len(m.controls)}
        for k in want2:
            if d2.get(k) != want2[k]:
                viol.append(V('c14.describe', k, 'describe(2)[%s] = %r, existing %r' % (k, d2.get(k), want2[k])))
        d0 = wn.describe(level=0)
        if d0.get('Curves') != len(m.curves):
            viol.append(V('c14.describe', 'Curves', 'describe(0)[Curves] = %r, existing %d' % (d0.get('Curves'), len(m.curves))))
    except Exception as e:  # noqa
        viol.append(V('c14.view_raises', 'describe', 'describe: %s: %s' % (type(e).__name__, e)))
    if viol:
        return viol
    # connectivity
    for k, l in m.links.items():
        try:
            o = wn.get_link(k)
            a, b = o.start_node_name, o.end_node_name
            if (a, b) != (l['a'], l['b']):
                viol.append(V('c14.link_ends', l['type'], 'link %s joins %s->%s, expected %s->%s' % (k, a, b, l['a'], l['b'])))
            if a not in m.nodes or b not in m.nodes or o.start_node is not wn.get_node(a) or o.end_node is not wn.get_node(b):
                viol.append(V('c14.link_end_missing', l['type'], 'link %s: end nodes %s/%s do not (both) exist in the model' % (k, a, b)))
        except Exception as e:  # noqa
            viol.append(V('c14.view_raises', 'get_link', 'link %s: %s: %s' % (k, type(e).__name__, e)))
    for n in m.nodes:
        for flag in ('ALL', 'INLET', 'OUTLET'):
            if flag == 'ALL':
                want = [k for k, l in m.links.items() if n in (l['a'], l['b'])]
            elif flag == 'INLET':
                want = [k for k, l in m.links.items() if l['b'] == n]
            else:
                want = [k for k, l in m.links.items() if l['a'] == n]
            try:
                got = wn.get_links_for_node(n, flag)
            except Exception as e:  # noqa
                viol.append(V('c14.view_raises', 'get_links_for_node', 'get_links_for_node(%s,%s): %s: %s' % (n, flag, type(e).__name__, e)))
                continue
            if sorted(got) != sorted(want):
                viol.append(V('c14.links_for_node', flag, 'get_links_for_node(%s,%s) = %r, existing links %r' % (n, flag, sorted(got), sorted(want))))
    try:
        g = wn.to_graph()
        gn = sorted(g.nodes())
        ge = sorted((u, v, kk) for u, v, kk in g.edges(keys=True))
        we = sorted((l['a'], l['b'], k) for k, l in m.links.items())
        if gn != sorted(m.nodes):
            viol.append(V('c14.graph_nodes', 'to_graph', 'graph nodes %r, existing %r' % (gn[:10], sorted(m.nodes)[:10])))
        if ge != we:
            viol.append(V('c14.graph_edges', 'to_graph', 'graph edges %r, existing links %r' % (ge[:8], we[:8])))
    except Exception as e:  # noqa
        viol.append(V('c14.view_raises', 'to_graph', 'to_graph: %s: %s' % (type(e).__name__, e)))
    # usage records
    exp = {'_node_reg': {n: m.node_users(n) for n in m.nodes}, '_pattern_reg': {p: m.pattern_users(p) for p in m.patterns},
           '_curve_reg': {cu: m.curve_users(cu) for cu in m.curves}}
    for nm, want in exp.items():
        reg = getattr(wn, nm)
        got = _usage_map(reg)
        for key, users in got.items():
            if nm == '_pattern_reg' and key == 'DefaultPattern()':
                # junctions without a pattern are recorded under the model's default-pattern placeholder
                for u in users:
                    if not (u[1] == 'Junction' and u[0] in m.nodes and m.nodes[u[0]]['type'] == 'J'):
                        viol.append(V('c14.usage_stale', nm + ':default:' + u[1], '%s usage[default pattern] names %r which does not exist' % (nm, u)))
                continue
            if key not in want and nm == '_pattern_reg' and key == str(wn.options.hydraulic.pattern):
                # the name of the model's default pattern (which need not exist): its users must exist and be junctions
                for u in users:
                    if not (u[1] == 'Junction' and u[0] in m.nodes and m.nodes[u[0]]['type'] == 'J'):
                        viol.append(V('c14.usage_stale', nm + ':default:' + u[1], '%s usage[default pattern name] names %r which does not exist' % (nm, u)))
                continue
            for u in users:
                if key not in want:
                    viol.append(V('c14.usage_of_missing_key', nm, '%s usage has key %r (users %r) which is not an element of the registry' % (nm, key, sorted(users))))
                    break
                if u not in want[key]:
                    exists = (u[0] in m.nodes or u[0] in m.links or u[0] in m.sources)
                    viol.append(V('c14.usage_stale', nm + ':' + u[1], '%s usage[%s] names %r which %s' % (nm, key, u, 'does not refer to it' if exists else 'does not exist')))
        for key, users in want.items():
            miss = users - got.get(key, set())
            if miss:
                viol.append(V('c14.usage_missing', nm, '%s usage[%s] lacks %r although they refer to it' % (nm, key, sorted(miss))))
        try:
            orph = [o for o in reg.orphaned() if isinstance(o, str) and not (nm == '_pattern_reg' and o == str(wn.options.hydraulic.pattern))]
            if orph:
                viol.append(V('c14.orphaned', nm, '%s.orphaned() = %r' % (nm, sorted(map(str, orph)))))
        except Exception as e:  # noqa
            viol.append(V('c14.view_raises', 'orphaned', '%s: %s' % (type(e).__name__, e)))
    c['c14.view_checks'] = c.get('c14.view_checks', 0) + 1
    return viol


# ---------------------------------------------------------------------------------------------------- restarts
def persist(wn, how, scratch, units='LPS', version=2.2):
    """-> reloaded model (only the persisted image survives)"""
    import wntr
    if how == 'pickle':
        return pickle.loads(pickle.dumps(wn))
    if how == 'deepcopy':
        return copy.deepcopy(wn)
    if how == 'dict':
        return wntr.network.from_dict(json.loads(json.dumps(wn.to_dict())))
    if how == 'json':
        p = os.path.join(scratch, 'm.json')
        wntr.network.write_json(wn, p)
        return wntr.network.read_json(p)
    if how == 'inp':
        p = os.path.join(scratch, 'm.inp')
        wntr.network.write_inpfile(wn, p, units=units, version=version)
        return wntr.network.WaterNetworkModel(p)
    raise ValueError(how)


def rename_after_restart(m, how):
    """names the persistence formats do not keep: simple controls are renamed 'control <k>' (dict/JSON/INP), sources 'INP<k>' (INP)"""
    if how == 'inp':
        # the INP format has no place for leaks: their start/end controls are not written
        for name in [n_ for n_, c_ in m.controls.items() if c_.get('leak')]:
            del m.controls[name]
    if how in ('dict', 'json', 'inp'):
        new = OrderedDict()
        k = 0
        rules = []
        for name, c in m.controls.items():
            if c['kind'] == 'simple':
                k += 1
                new['control ' + str(k)] = c
            else:
                rules.append((name, c))
        if how == 'inp':
            for name, c in rules:
                new[name] = c
            m.controls = new
        else:
            # dict keeps the original order of controls
            new = OrderedDict()
            k = 0
            for name, c in m.controls.items():
                if c['kind'] == 'simple':
                    k += 1
                    new['control ' + str(k)] = c
                else:
                    new[name] = c
            m.controls = new
    if how == 'inp':
        # the INP format stores no type for a curve: curves nothing refers to come back untyped (outside the statement)
        for cname, cu in m.curves.items():
            if not m.curve_referenced(cname):
                cu['type'] = None
        new = OrderedDict()
        for i, (name, s) in enumerate(m.sources.items()):
            new['INP%d' % (i + 1)] = s
        m.sources = new
