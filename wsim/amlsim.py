"""Engine E3: the algebraic modelling layer (wntr.sim.aml) under add / remove / set histories.
The harness keeps its own AST for every constraint and evaluates value and partial derivatives itself (forward mode);
the compiled evaluator must agree at the indices it reports.  No WNTR code is used for expected values."""
import math

UNARY = ['neg', 'abs', 'sign', 'exp', 'log', 'sin', 'cos', 'tan', 'asin', 'acos', 'atan']
BINARY = ['+', '-', '*', '/', '**']


class DomainError(Exception):
    pass


# ---------------------------------------------------------------------------------------------- harness evaluation
def ev(ast, env):
    """-> (value, {var id: d/dvar}, M) ; M = largest magnitude met (for tolerances).  Raises DomainError outside the
    domain of definition or within the guard distance of a kink / pole."""
    k = ast[0]
    if k == 'c':
        return float(ast[1]), {}, abs(float(ast[1]))
    if k == 'v':
        x = env['v'][ast[1]]
        return x, {ast[1]: 1.0}, abs(x)
    if k == 'p':
        x = env['p'][ast[1]]
        return x, {}, abs(x)
    if k == 'ref':
        return ev(env['subs'][ast[1]], env)
    if k in BINARY:
        a, da, ma = ev(ast[1], env)
        b, db, mb = ev(ast[2], env)
        keys = set(da) | set(db)
        if k == '+':
            v = a + b
            d = {i: da.get(i, 0.0) + db.get(i, 0.0) for i in keys}
        elif k == '-':
            v = a - b
            d = {i: da.get(i, 0.0) - db.get(i, 0.0) for i in keys}
        elif k == '*':
            v = a * b
            d = {i: da.get(i, 0.0) * b + a * db.get(i, 0.0) for i in keys}
        elif k == '/':
            if abs(b) < 1e-2:
                raise DomainError('small denominator')
            v = a / b
            d = {i: da.get(i, 0.0) / b - a * db.get(i, 0.0) / (b * b) for i in keys}
        else:
            # a ** b
            if db:
                if a <= 0.05:
                    raise DomainError('non-positive base with variable exponent')
                if abs(b) > 6 or a > 50:
                    raise DomainError('large power')
                v = a ** b
                d = {i: v * (db.get(i, 0.0) * math.log(a) + b * da.get(i, 0.0) / a) for i in keys}
            else:
                if b != int(b) and a <= 0.05:
                    raise DomainError('fractional power of a non-positive base')
                if b < 0 and abs(a) < 1e-2:
                    raise DomainError('negative power of ~0')
                if abs(b) > 6 or abs(a) > 50:
                    raise DomainError('large power')
                if a == 0.0 and b == int(b) and b >= 1:
                    raise DomainError('power at zero base (derivative formula 0*x**(b-1) is fine but keep away)')
                v = a ** b
                d = {i: b * a ** (b - 1.0) * da.get(i, 0.0) for i in keys}
        m = max([ma, mb, abs(v)] + [abs(x) for x in d.values()])
        if not math.isfinite(v) or m > 1e8:
            raise DomainError('magnitude')
        return v, d, m
    a, da, ma = ev(ast[1], env)
    if k == 'neg':
        v, g = -a, -1.0
    elif k == 'abs':
        if abs(a) < 1e-3:
            raise DomainError('kink of abs')
        v, g = abs(a), (1.0 if a > 0 else -1.0)
    elif k == 'sign':
        if abs(a) < 1e-3:
            raise DomainError('jump of sign')
        v, g = (1.0 if a > 0 else -1.0), 0.0
    elif k == 'exp':
        if a > 15:
            raise DomainError('exp overflow guard')
        v = math.exp(a)
        g = v
    elif k == 'log':
        if a < 0.05:
            raise DomainError('log of non-positive')
        v, g = math.log(a), 1.0 / a
    elif k == 'sin':
        v, g = math.sin(a), math.cos(a)
    elif k == 'cos':
        v, g = math.cos(a), -math.sin(a)
    elif k == 'tan':
        if abs(math.cos(a)) < 0.1:
            raise DomainError('pole of tan')
        v = math.tan(a)
        g = 1.0 / math.cos(a) ** 2
    elif k == 'asin':
        if abs(a) > 0.95:
            raise DomainError('asin domain')
        v, g = math.asin(a), 1.0 / math.sqrt(1 - a * a)
    elif k == 'acos':
        if abs(a) > 0.95:
            raise DomainError('acos domain')
        v, g = math.acos(a), -1.0 / math.sqrt(1 - a * a)
    elif k == 'atan':
        v, g = math.atan(a), 1.0 / (1 + a * a)
    else:
        raise ValueError('unknown node %r' % (k,))
    d = {i: g * x for i, x in da.items()}
    m = max([ma, abs(v)] + [abs(x) for x in d.values()])
    if not math.isfinite(v) or m > 1e8:
        raise DomainError('magnitude')
    return v, d, m


def fold(ast, subs):
    """what the overloaded operators of wntr.sim.aml.expr make of the tree: ('n', number) when it collapses to a Python
    number, else ('e', set of variable ids that remain referenced).  Only the documented shortcuts are mirrored:
    e+0, e-0, 0+e, 0-e, e*1, 1*e, e/1, e**1 keep e;  e*0, 0*e, 0/e, 0**e give 0;  e**0, 1**e give 1."""
    k = ast[0]
    if k == 'c':
        return ('n', float(ast[1]))
    if k == 'v':
        return ('e', set([ast[1]]))
    if k == 'p':
        return ('e', set())
    if k == 'ref':
        return fold(subs[ast[1]], subs)
    if k in BINARY:
        a, b = fold(ast[1], subs), fold(ast[2], subs)
        if a[0] == 'n' and b[0] == 'n':
            x, y = a[1], b[1]
            try:
                if k == '+':
                    return ('n', x + y)
                if k == '-':
                    return ('n', x - y)
                if k == '*':
                    return ('n', x * y)
                if k == '/':
                    return ('n', x / y)
                r = x ** y
                if isinstance(r, complex):
                    raise DomainError('complex power')
                return ('n', float(r))
            except (ZeroDivisionError, OverflowError):
                raise DomainError('constant arithmetic')
        if a[0] == 'e' and b[0] == 'n':
            y = b[1]
            if k in ('+', '-') and y == 0:
                return a
            if k == '*':
                if y == 0:
                    return ('n', 0.0)
                if y == 1:
                    return a
            if k == '/':
                if y == 0:
                    raise DomainError('divide by 0')
                if y == 1:
                    return a
            if k == '**':
                if y == 0:
                    return ('n', 1.0)
                if y == 1:
                    return a
            return ('e', set(a[1]))
        if a[0] == 'n' and b[0] == 'e':
            x = a[1]
            if k in ('+', '-') and x == 0:
                return b
            if k == '*':
                if x == 0:
                    return ('n', 0.0)
                if x == 1:
                    return b
            if k == '/' and x == 0:
                return ('n', 0.0)
            if k == '**':
                if x == 0:
                    return ('n', 0.0)
                if x == 1:
                    return ('n', 1.0)
            return ('e', set(b[1]))
        return ('e', set(a[1]) | set(b[1]))
    a = fold(ast[1], subs)
    if a[0] == 'e':
        return a
    x = a[1]
    try:
        if k == 'neg':
            return ('n', -x)
        if k == 'abs':
            return ('n', math.fabs(x))
        if k == 'sign':
            return ('n', 1.0 if x >= 0 else -1.0)
        return ('n', float(getattr(math, k)(x)))
    except (ValueError, OverflowError):
        raise DomainError('constant function')


def vars_of(ast, subs, out=None):
    """variables the registered expression refers to (after the operator shortcuts)"""
    out = set() if out is None else out
    f = fold(ast, subs)
    if f[0] == 'e':
        out |= f[1]
    return out


def _vars_of_unfolded(ast, subs, out=None):
    out = set() if out is None else out
    k = ast[0]
    if k == 'v':
        out.add(ast[1])
    elif k == 'ref':
        vars_of(subs[ast[1]], subs, out)
    elif k in BINARY:
        vars_of(ast[1], subs, out)
        vars_of(ast[2], subs, out)
    elif k in UNARY:
        vars_of(ast[1], subs, out)
    return out


def branch_of(con, env, exact_ok=True):
    """index of the first branch whose condition lb <= body <= ub holds (inclusive); len(branches) = the final branch.
    Raises DomainError when a body is within 1e-6 of a bound without being a bare variable sitting exactly on it."""
    for i, br in enumerate(con['branches']):
        body, _, _ = ev(br['body'], env)
        ok = True
        for bound, lower in ((br.get('lb'), True), (br.get('ub'), False)):
            if bound is None:
                continue
            if abs(body - bound) < 1e-6:
                if not (br['body'][0] == 'v' and body == bound and exact_ok):
                    raise DomainError('knife edge of a branch bound')
            if lower and body < bound:
                ok = False
            if not lower and body > bound:
                ok = False
        if ok:
            return i
    return len(con['branches'])


def con_eval(con, env):
    """-> (value, grad, M, vars referenced by the whole constraint)"""
    subs = env['subs']
    if con['kind'] == 'plain':
        v, d, m = ev(con['ast'], env)
        return v, d, m, vars_of(con['ast'], subs)
    allv = set()
    for br in con['branches']:
        vars_of(br['body'], subs, allv)
        vars_of(br['expr'], subs, allv)
        # every branch must be in its domain (the evaluator may evaluate any of them)
    vars_of(con['final'], subs, allv)
    i = branch_of(con, env)
    for br in con['branches']:
        ev(br['expr'], env)
    ev(con['final'], env)
    expr = con['final'] if i == len(con['branches']) else con['branches'][i]['expr']
    v, d, m = ev(expr, env)
    return v, d, m, allv


# ---------------------------------------------------------------------------------------------- harness model (generation + oracle)
class HModel(object):
    def __init__(self):
        self.v = {}        # id -> value
        self.p = {}
        self.subs = {}     # id -> ast
        self.cons = {}     # name -> con spec  (dict members are named  dname[key])
        self.dicts = {}    # dname -> set of keys
        self.dirty = True

    def env(self):
        return {'v': self.v, 'p': self.p, 'subs': self.subs}

    def all_ok(self):
        try:
            for c in self.cons.values():
                con_eval(c, self.env())
            return True
        except (DomainError, OverflowError, ZeroDivisionError, ValueError):
            return False

    def live_vars(self):
        out = set()
        for c in self.cons.values():
            if c['kind'] == 'plain':
                vars_of(c['ast'], self.subs, out)
            else:
                for br in c['branches']:
                    vars_of(br['body'], self.subs, out)
                    vars_of(br['expr'], self.subs, out)
                vars_of(c['final'], self.subs, out)
        return out


def h_step(h, op):
    """apply op to the harness model; -> 'ok' | 'skip' | 'dup' (must be refused by the real model)"""
    k = op['op']
    if k == 'var':
        if op['id'] in h.v:
            return 'skip'
        h.v[op['id']] = float(op['val'])
        return 'ok'
    if k == 'param':
        if op['id'] in h.p:
            return 'skip'
        h.p[op['id']] = float(op['val'])
        return 'ok'
    if k == 'sub':
        if op['id'] in h.subs or not _refs_ok(h, op['ast']):
            return 'skip'
        h.subs[op['id']] = op['ast']
        return 'ok'
    if k in ('con', 'cond'):
        if op['name'] in h.cons or op['name'] in h.dicts:
            return 'dup'
        spec = _spec(op)
        if not _spec_refs_ok(h, spec):
            return 'skip'
        h.cons[op['name']] = spec
        if not h.all_ok():
            del h.cons[op['name']]
            return 'skip'
        h.dirty = True
        return 'ok'
    if k == 'cdict':
        if op['name'] in h.dicts or op['name'] in h.cons:
            return 'dup'
        added = []
        for key, ast in op['items']:
            spec = {'kind': 'plain', 'ast': ast}
            if not _spec_refs_ok(h, spec):
                continue
            nm = '%s[%s]' % (op['name'], key)
            h.cons[nm] = spec
            if not h.all_ok():
                del h.cons[nm]
                continue
            added.append(key)
        h.dicts[op['name']] = set(added)
        op['_keys'] = added
        h.dirty = True
        return 'ok'
    if k == 'cdict_add':
        if op['name'] not in h.dicts or op['key'] in h.dicts[op['name']]:
            return 'skip'
        spec = {'kind': 'plain', 'ast': op['ast']}
        if not _spec_refs_ok(h, spec):
            return 'skip'
        nm = '%s[%s]' % (op['name'], op['key'])
        h.cons[nm] = spec
        if not h.all_ok():
            del h.cons[nm]
            return 'skip'
        h.dicts[op['name']].add(op['key'])
        h.dirty = True
        return 'ok'
    if k == 'cdict_del':
        if op['name'] not in h.dicts or op['key'] not in h.dicts[op['name']]:
            return 'skip'
        h.dicts[op['name']].discard(op['key'])
        del h.cons['%s[%s]' % (op['name'], op['key'])]
        h.dirty = True
        return 'ok'
    if k == 'del':
        if op['name'] in h.dicts:
            for key in h.dicts[op['name']]:
                del h.cons['%s[%s]' % (op['name'], key)]
            del h.dicts[op['name']]
            h.dirty = True
            return 'ok'
        if op['name'] not in h.cons:
            return 'skip'
        del h.cons[op['name']]
        h.dirty = True
        return 'ok'
    if k == 'setv':
        if op['id'] not in h.v:
            return 'skip'
        old = h.v[op['id']]
        h.v[op['id']] = float(op['val'])
        if not h.all_ok():
            h.v[op['id']] = old
            return 'skip'
        return 'ok'
    if k == 'setp':
        if op['id'] not in h.p:
            return 'skip'
        old = h.p[op['id']]
        h.p[op['id']] = float(op['val'])
        if not h.all_ok():
            h.p[op['id']] = old
            return 'skip'
        return 'ok'
    if k == 'loadx':
        # values arrive through the x vector (as a solver delivers them), not through Var.value
        live = h.live_vars()
        vals = [(vid, float(val)) for vid, val in op['vals'] if vid in live]
        if not vals or not h.cons:
            return 'skip'
        old = dict(h.v)
        for vid, val in vals:
            h.v[vid] = val
        if not h.all_ok():
            h.v = old
            return 'skip'
        op['_vals'] = vals
        h.dirty = False          # the real side calls set_structure() before it reads x
        return 'ok'
    if k in ('eval', 'noise', 'probe_unstructured'):
        return 'ok'
    raise ValueError('unknown op %r' % (op,))


def _spec(op):
    if op['op'] == 'con':
        return {'kind': 'plain', 'ast': op['ast']}
    return {'kind': 'cond', 'branches': op['branches'], 'final': op['final']}


def _refs_ok(h, ast):
    k = ast[0]
    if k == 'v':
        return ast[1] in h.v
    if k == 'p':
        return ast[1] in h.p
    if k == 'ref':
        return ast[1] in h.subs
    if k == 'c':
        return True
    return all(_refs_ok(h, a) for a in ast[1:])


def _is_expr(h, ast):
    try:
        return fold(ast, h.subs)[0] == 'e'
    except DomainError:
        return False


def _spec_refs_ok(h, spec):
    """references exist and no part collapses to a Python number (a constraint or branch without any leaf is not an expression)"""
    if spec['kind'] == 'plain':
        return _refs_ok(h, spec['ast']) and _is_expr(h, spec['ast']) and bool(vars_of(spec['ast'], h.subs))
    for br in spec['branches']:
        if not (_refs_ok(h, br['body']) and _refs_ok(h, br['expr']) and _is_expr(h, br['body']) and _is_expr(h, br['expr'])):
            return False
        if not vars_of(br['body'], h.subs):
            return False
    return _refs_ok(h, spec['final']) and _is_expr(h, spec['final'])


# ---------------------------------------------------------------------------------------------- real side
class Real(object):
    """the real wntr.sim.aml model driven by the same operations"""

    def __init__(self):
        from wntr.sim import aml
        self.aml = aml
        self.m = aml.Model()
        self.v = {}
        self.p = {}
        self.sub_ast = {}
        self.sub_obj = {}
        self.cons = {}      # name -> Constraint
        self.dicts = {}     # dname -> ConstraintDict

    def build(self, ast):
        """AST -> wntr expression through the overloaded Python operators (python numbers stay python numbers, so
        reflected operators and constant folding are exercised)"""
        aml = self.aml
        k = ast[0]
        if k == 'c':
            return int(ast[1]) if (len(ast) > 2 and ast[2] == 'int') else float(ast[1])
        if k == 'v':
            return self.v[ast[1]]
        if k == 'p':
            return self.p[ast[1]]
        if k == 'ref':
            if ast[1] not in self.sub_obj:
                self.sub_obj[ast[1]] = self.build(self.sub_ast[ast[1]])
            return self.sub_obj[ast[1]]
        if k in BINARY:
            a, b = self.build(ast[1]), self.build(ast[2])
            if k == '+':
                return a + b
            if k == '-':
                return a - b
            if k == '*':
                return a * b
            if k == '/':
                return a / b
            return a ** b
        a = self.build(ast[1])
        if k == 'neg':
            return -a
        return getattr(aml, k)(a)

    def constraint(self, spec):
        aml = self.aml
        if spec['kind'] == 'plain':
            return aml.Constraint(self.build(spec['ast']))
        e = aml.ConditionalExpression()
        for br in spec['branches']:
            cond = aml.inequality(body=self.build(br['body']), lb=br.get('lb'), ub=br.get('ub'))
            e.add_condition(cond, self.build(br['expr']))
        e.add_final_expr(self.build(spec['final']))
        return aml.Constraint(e)

    def step(self, op):
        aml = self.aml
        k = op['op']
        if k == 'var':
            self.v[op['id']] = aml.Var(float(op['val']))
        elif k == 'param':
            self.p[op['id']] = aml.Param(float(op['val']))
        elif k == 'sub':
            self.sub_ast[op['id']] = op['ast']
        elif k in ('con', 'cond'):
            c = self.constraint(_spec(op))
            setattr(self.m, op['name'], c)
            self.cons[op['name']] = c
        elif k == 'cdict':
            d = aml.ConstraintDict()
            pre = op.get('pre', 0)
            keys = op.get('_keys', [])
            items = [(key, ast) for key, ast in op['items'] if key in keys]
            for key, ast in items[:pre]:
                d[key] = aml.Constraint(self.build(ast))
            setattr(self.m, op['name'], d)        # registers the members added so far
            for key, ast in items[pre:]:
                d[key] = aml.Constraint(self.build(ast))   # registers through the dict
            self.dicts[op['name']] = d
            for key, ast in items:
                self.cons['%s[%s]' % (op['name'], key)] = d[key]
        elif k == 'cdict_add':
            d = self.dicts[op['name']]
            d[op['key']] = aml.Constraint(self.build(op['ast']))
            self.cons['%s[%s]' % (op['name'], op['key'])] = d[op['key']]
        elif k == 'cdict_del':
            d = self.dicts[op['name']]
            del d[op['key']]
            del self.cons['%s[%s]' % (op['name'], op['key'])]
        elif k == 'del':
            if op['name'] in self.dicts:
                d = self.dicts.pop(op['name'])
                for key in list(d.keys()):
                    self.cons.pop('%s[%s]' % (op['name'], key), None)
                delattr(self.m, op['name'])
            else:
                delattr(self.m, op['name'])
                del self.cons[op['name']]
        elif k == 'setv':
            self.v[op['id']].value = float(op['val'])
        elif k == 'setp':
            self.p[op['id']].value = float(op['val'])
        elif k == 'loadx':
            import numpy as np
            self.m.set_structure()
            x = np.array(self.m.get_x(), dtype=float)
            for vid, val in op['_vals']:
                x[self.v[vid].index] = val
            if op.get('via') == 'residuals':
                self.m.evaluate_residuals(x)
            else:
                self.m.load_var_values_from_x(x)
        else:
            raise ValueError(op)
