"""Process model (DESIGN.md 3.8): static seed ranges over a fork pool, every run in a child
forked from the worker's pristine post-import image; verdicts come back over a pipe."""
import os
import pickle
import select
import signal
import sys
import time
import traceback
import faulthandler
from concurrent.futures import ProcessPoolExecutor
import multiprocessing

RUN_WALL = int(os.environ.get('WSIM_RUN_WALL', '3600'))   # one case may be a whole enumeration (C10/C16: up to ~80 runs); busy hangs inside a run are caught by the 60 s CPU-time cap in the taps, the wall limit is for a blocked child only


def run_isolated(fn, arg, wall=RUN_WALL):
    """Run fn(arg) in a forked child; return its (picklable) result or a harness verdict."""
    if os.environ.get('WSIM_NOFORK'):
        return _guard(fn, arg)
    r, w = os.pipe()
    pid = os.fork()
    if pid == 0:
        # child
        os.close(r)
        code = 0
        try:
            res = _guard(fn, arg)
            data = pickle.dumps(res, protocol=4)
        except BaseException as e:  # noqa
            data = pickle.dumps({'outcome': 'harness_error', 'error': 'child: %r' % (e,),
                                 'tb': traceback.format_exc()[-3000:]}, protocol=4)
            code = 3
        try:
            with os.fdopen(w, 'wb') as fh:
                fh.write(data)
        finally:
            os._exit(code)
    os.close(w)
    chunks = []
    deadline = time.time() + wall
    timed_out = False
    with os.fdopen(r, 'rb') as fh:
        fd = fh.fileno()
        while True:
            left = deadline - time.time()
            if left <= 0:
                timed_out = True
                break
            ready, _, _ = select.select([fd], [], [], min(left, 5.0))
            if ready:
                b = os.read(fd, 1 << 16)
                if not b:
                    break
                chunks.append(b)
    if timed_out:
        try:
            os.kill(pid, signal.SIGKILL)
        except OSError:
            pass
    try:
        os.waitpid(pid, 0)
    except OSError:
        pass
    if timed_out:
        return {'outcome': 'harness_timeout', 'error': 'run exceeded %ds wall' % wall}
    try:
        return pickle.loads(b''.join(chunks))
    except Exception as e:  # noqa
        return {'outcome': 'harness_error', 'error': 'no verdict from child: %r' % (e,)}


def _guard(fn, arg):
    try:
        return fn(arg)
    except BaseException as e:  # noqa
        name = type(e).__name__
        if name == 'WsimTimeout':
            return {'outcome': 'harness_timeout', 'error': 'CPU-time cap inside one run', 'tb': traceback.format_exc()[-2000:]}
        return {'outcome': 'harness_error', 'error': '%s: %s' % (name, e), 'tb': traceback.format_exc()[-3000:]}


def _worker(args):
    fn, items, wall_deadline = args
    out = []
    for it in items:
        if wall_deadline is not None and time.time() > wall_deadline:
            out.append((it, {'outcome': 'not_run'}))
            continue
        out.append((it, run_isolated(fn, it)))
    return out


def _init():
    faulthandler.enable()


def explore(fn, items, workers=None, chunk=8, batch_wall=None, progress=None):
    """Apply fn to every item (static dealing: chunk k goes to task k, independent of worker count).
    Returns list of (item, verdict) in item order."""
    workers = workers or int(os.environ.get('WSIM_WORKERS', os.cpu_count() or 4))
    items = list(items)
    chunks = [items[i:i + chunk] for i in range(0, len(items), chunk)]
    deadline = (time.time() + batch_wall) if batch_wall else None
    res = []
    if workers <= 1:
        for c in chunks:
            res.extend(_worker((fn, c, deadline)))
            if progress:
                progress(len(res), len(items))
        return res
    ctx = multiprocessing.get_context('fork')
    ex = ProcessPoolExecutor(max_workers=workers, mp_context=ctx, initializer=_init)
    try:
        futs = [ex.submit(_worker, (fn, c, deadline)) for c in chunks]
        for i, f in enumerate(futs):
            try:
                res.extend(f.result(timeout=(batch_wall or 36000) + RUN_WALL * chunk + 60))
            except Exception as e:  # noqa
                for it in chunks[i]:
                    res.append((it, {'outcome': 'harness_error', 'error': 'worker: %r' % (e,)}))
            if progress:
                progress(len(res), len(items))
    finally:
        procs = list(getattr(ex, '_processes', {}).values()) if getattr(ex, '_processes', None) else []
        ex.shutdown(wait=False, cancel_futures=True)
        for p in procs:
            try:
                if p.is_alive():
                    p.terminate()
            except Exception:  # noqa
                pass
    return res
