"""Shared driver for the invariant properties of engine E1: run one world with the faults written in the
scenario (pauses with persistence, a rescued solver fault, evaluator-order perturbation), classify the outcome."""
import types

import numpy as np
import pandas as pd

from . import runsim, taps, world
from .oracles import V, NODE_KEYS, LINK_KEYS


class Tables(object):
    def __init__(self, node, link, error_code):
        self.node = node
        self.link = link
        self.error_code = error_code


def concat(parts):
    if len(parts) == 1:
        return parts[0]
    node = {k: pd.concat([p.node[k] for p in parts]) for k in NODE_KEYS}
    link = {k: pd.concat([p.link[k] for p in parts]) for k in LINK_KEYS}
    ec = None
    for p in parts:
        if p.error_code is not None:
            ec = p.error_code
    return Tables(node, link, ec)


_noise_keep = []


def perturb_evalorder(n):
    """allocation noise before the model is built: shifts the heap addresses that order the evaluator's sets"""
    from wntr.sim import aml
    for i in range(int(n)):
        v = aml.Var(1.0 + i)
        _noise_keep.append(v)
        if i % 3 == 0:
            _noise_keep.append(aml.Constraint(v * 2.0 - 1.0))
    if len(_noise_keep) > 5000:
        del _noise_keep[:2500]


def simulate(scn, monitor=None):
    """run the scenario with its own fault list.  Returns RunOut with .tables set (concatenated parts)."""
    plan = []
    pauses = []
    persist = 'none'
    s2 = scn
    for f in scn.get('faults', []):
        k = f['kind']
        if k == 'pause':
            pauses.append(int(f['at']))
            persist = f.get('persist', persist)
        elif k == 'rescue':
            plan.append({'kind': f.get('how', 'timelimit'), 'at_solve': int(f['at_solve']), 'backup': False})
            if s2 is scn:
                s2 = world.clone(scn)
            s2['run']['backup'] = {'options': {'MAXITER': 500}}
        elif k == 'evalorder':
            perturb_evalorder(f.get('n', 10))
    pauses = sorted(set(p for p in pauses if 0 < p < scn['options']['duration']))
    out = runsim.run_world(s2, plan=plan or None, monitor=monitor, pauses=pauses or None, persist=persist)
    out.tables = concat(out.parts) if out.parts else None
    return out


def classify(out, prop_sites=()):
    """-> (kind, violation|None).  kind in ok | discard:<why> | repo_exception | stepcap"""
    if out.exc is not None:
        if isinstance(out.exc, taps.WsimStepCap):
            return 'stepcap', V('terminates', 'stepcap', str(out.exc))
        if isinstance(out.exc, NotImplementedError):
            return 'discard:not_implemented', None
        return 'repo_exception', V('run.raised', '%s@%s' % (type(out.exc).__name__, out.exc_site), (out.exc_tb or '')[-700:])
    if out.tables is None:
        return 'discard:no_results', None
    if out.tables.error_code is not None:
        return 'discard:nonconverged', None
    return 'ok', None


def add_faults(rng, scn, p_pause=0.3, p_rescue=0.15, p_evalorder=0.3):
    """sprinkle the generic E1 faults the invariants must survive"""
    o = scn['options']
    hyd = o['hyd_step']
    nst = o['duration'] // hyd
    if nst >= 2 and rng.chance(p_pause):
        for _ in range(rng.irange(1, 2)):
            scn['faults'].append({'kind': 'pause', 'at': int(rng.irange(1, nst - 1) * hyd),
                                  'persist': rng.pick(['none', 'pickle', 'deepcopy'])})
        pz = [f for f in scn['faults'] if f['kind'] == 'pause']
        for f in pz:
            f['persist'] = pz[0]['persist']
    if rng.chance(p_rescue):
        scn['faults'].append({'kind': 'rescue', 'at_solve': rng.irange(0, max(1, nst)), 'how': rng.pick(['timelimit', 'maxiter', 'singular'])})
    if rng.chance(p_evalorder):
        scn['faults'].append({'kind': 'evalorder', 'n': rng.irange(1, 60)})
    return scn


def fired_counters(out, c):
    for k, n in out.rec.fired.items():
        c['fired.' + k] = c.get('fired.' + k, 0) + n
    for f in out.rec.scn.get('faults', []):
        if f['kind'] == 'evalorder':
            c['fired.evalorder.perturb'] = c.get('fired.evalorder.perturb', 0) + 1
