"""Shared driver for the invariant properties of engine E1: run one world with the faults written in the
scenario (pauses with persistence, a rescued solver fault, evaluator-order perturbation), classify the outcome."""
import types

import numpy as np
import pandas as pd

from . import runsim, taps, world
from .oracles import V, NODE_KEYS, LINK_KEYS


class Tables(object):
    def __init__(self, node, link, error_code):
        self.node = node
        self.link = link
        self.error_code = error_code


def concat(parts):
    if len(parts) == 1:
        return parts[0]
    node = {k: pd.concat([p.node[k] for p in parts]) for k in NODE_KEYS}
    link = {k: pd.concat([p.link[k] for p in parts]) for k in LINK_KEYS}
    ec = None
    for p in parts:
        if p.error_code is not None:
            ec = p.error_code
    return Tables(node, link, ec)


_noise_keep = []


def perturb_evalorder(n):
    """allocation noise before the model is built: shifts the heap addresses that order the evaluator's sets"""
    from wntr.sim import aml
    for i in range(int(n)):
        v = aml.Var(1.0 + i)
        _noise_keep.append(v)
        if i % 3 == 0:
            _noise_keep.append(aml.Constraint(v * 2.0 - 1.0))
    if len(_noise_keep) > 5000:
        del _noise_keep[:2500]


def simulate(scn, monitor=None):
    """run the scenario with its own fault list.  Returns RunOut with .tables set (concatenated parts)."""
    plan = []
    pauses = []
    persist = 'none'
    s2 = scn
    for f in scn.get('faults', []):
        k = f['kind']
        if k == 'pause':
            pauses.append(int(f['at']))
            persist = f.get('persist', persist)
        elif k == 'rescue':
            plan.append({'kind': f.get('how', 'timelimit'), 'at_solve': int(f['at_solve']), 'backup': False})
            if s2 is scn:
                s2 = world.clone(scn)
            s2['run']['backup'] = {'options': {'MAXITER': 500}}
        elif k == 'evalorder':
            perturb_evalorder(f.get('n', 10))
    pauses = sorted(set(p for p in pauses if 0 < p < scn['options']['duration']))
    out = runsim.run_world(s2, plan=plan or None, monitor=monitor, pauses=pauses or None, persist=persist)
    out.tables = concat(out.parts) if out.parts else None
    return out


def classify(out, prop_sites=()):
    """-> (kind, violation|None).  kind in ok | discard:<why> | repo_exception | stepcap"""
    if out.exc is not None:
        if isinstance(out.exc, taps.WsimStepCap):
            return 'stepcap', V('terminates', 'stepcap', str(out.exc))
        if isinstance(out.exc, NotImplementedError):
            return 'discard:not_implemented', None
        return 'repo_exception', V('run.raised', '%s@%s' % (type(out.exc).__name__, out.exc_site), (out.exc_tb or '')[-700:])
    if out.tables is None:
        return 'discard:no_results', None
    if out.tables.error_code is not None:
        return 'discard:nonconverged', None
    return 'ok', None


def add_faults(rng, scn, p_pause=0.3, p_rescue=0.15, p_evalorder=0.3):
    """sprinkle the generic E1 faults the invariants must survive"""
    o = scn['options']
    hyd = o['hyd_step']
    nst = o['duration'] // hyd
    if nst >= 2 and rng.chance(p_pause):
        for _ in range(rng.irange(1, 2)):
            scn['faults'].append({'kind': 'pause', 'at': int(rng.irange(1, nst - 1) * hyd),
                                  'persist': rng.pick(['none', 'pickle', 'deepcopy'])})
        pz = [f for f in scn['faults'] if f['kind'] == 'pause']
        for f in pz:
            f['persist'] = pz[0]['persist']
    if rng.chance(p_rescue):
        scn['faults'].append({'kind': 'rescue', 'at_solve': rng.irange(0, max(1, nst)), 'how': rng.pick(['timelimit', 'maxiter', 'singular'])})
    if rng.chance(p_evalorder):
        scn['faults'].append({'kind': 'evalorder', 'n': rng.irange(1, 60)})
    return scn


def fired_counters(out, c):
    for k, n in out.rec.fired.items():
        c['fired.' + k] = c.get('fired.' + k, 0) + n
    for f in out.rec.scn.get('faults', []):
        if f['kind'] == 'evalorder':
            c['fired.evalorder.perturb'] = c.get('fired.evalorder.perturb', 0) + 1


# ---------------------------------------------------------------------------------------------------------------------
# run / edit the model through the public API / reset / rerun histories: whatever the simulator or the model caches between runs
# (fitted pump coefficients, pattern arrays, registries) must follow the edit
def gen_edits(rng, scn, n=(1, 3)):
    edits = []
    pipes = [l for l in scn['links'] if l['type'] == 'pipe']
    juncs = [x for x in scn['nodes'] if x['type'] == 'J' and x.get('demands')]
    heads = [l for l in scn['links'] if l['type'] == 'pump' and l.get('kind') == 'HEAD']
    valves = [l for l in scn['links'] if l['type'] == 'valve']
    vtanks = [x for x in scn['nodes'] if x['type'] == 'T' and x.get('vol_curve')]
    for _ in range(rng.irange(*n)):
        k = rng.wpick([('pipe', 3), ('pattern', 3 if scn['patterns'] else 0), ('demand', 3 if juncs else 0), ('pump_curve', 4 if heads else 0),
                       ('valve_setting', 2 if valves else 0), ('vol_curve', 4 if vtanks else 0), ('initial_status', 2), ('same_simulator', 2), ('multiplier', 1), ('elevation', 1), ('reservoir_head', 1), ('tank_init', 1)])
        if k == 'pipe' and pipes:
            l = rng.pick(pipes)
            attr = rng.pick(['diam', 'len', 'rough', 'minor'])
            val = {'diam': rng.pick([0.15, 0.2, 0.3, 0.4]), 'len': round(l['len'] * rng.pick([0.5, 2.0]), 2), 'rough': float(rng.pick([90, 110, 135])),
                   'minor': rng.pick([0.0, 1.5, 8.0])}[attr]
            edits.append({'kind': 'pipe', 'id': l['id'], 'attr': attr, 'value': val})
        elif k == 'pattern':
            nm = rng.pick(sorted(scn['patterns']))
            if nm == 'HSWEEP':
                continue
            edits.append({'kind': 'pattern', 'name': nm, 'mults': [round(rng.uni(0.3, 1.7), 3) for _ in range(rng.irange(2, 6))]})
        elif k == 'demand':
            j = rng.pick(juncs)
            i = rng.irange(0, len(j['demands']) - 1)
            edits.append({'kind': 'demand', 'node': j['id'], 'i': i, 'value': round(abs(j['demands'][i][0]) * rng.pick([0.5, 1.5, 2.0]) + 0.0002, 6)})
        elif k == 'pump_curve':
            l = rng.pick(heads)
            f = rng.pick([0.8, 0.9, 1.2, 1.4])
            edits.append({'kind': 'curve_points', 'curve': l['curve'], 'points': [[p_[0], round(p_[1] * f, 3)] for p_ in scn['curves'][l['curve']]['points']]})
        elif k == 'vol_curve':
            # the points of a tank's volume curve are replaced (same levels, other volumes: the tank got a different shape)
            tk = rng.pick(vtanks)
            f = rng.pick([0.6, 0.8, 1.3, 1.7])
            g = rng.pick([1.0, 1.0, 0.85, 1.2])
            pts = scn['curves'][tk['vol_curve']]['points']
            n_ = max(1, len(pts) - 1)
            new = [[p_[0], round(p_[1] * f * (g ** (i_ / n_)), 3)] for i_, p_ in enumerate(pts)]
            if any(b_[1] <= a_[1] for a_, b_ in zip(new, new[1:])):
                new = [[p_[0], round(p_[1] * f, 3)] for p_ in pts]
            edits.append({'kind': 'curve_points', 'curve': tk['vol_curve'], 'points': new})
        elif k == 'valve_setting':
            l = rng.pick(valves)
            edits.append({'kind': 'valve_setting', 'id': l['id'], 'value': round((l['setting'] if l['setting'] > 0 else 5.0) * rng.pick([0.6, 1.3]), 6)})
        elif k == 'initial_status':
            plain = [l for l in pipes if not l.get('cv')]
            if plain:
                l = rng.pick(plain)
                edits.append({'kind': 'initial_status', 'id': l['id'], 'value': 'CLOSED' if l.get('status', 'OPEN') == 'OPEN' else 'OPEN'})
        elif k == 'same_simulator':
            edits.append({'kind': 'same_simulator'})     # the second run reuses the WNTRSimulator object of the first
        elif k == 'multiplier':
            edits.append({'kind': 'multiplier', 'value': rng.pick([0.7, 1.3])})
        elif k == 'elevation':
            j = rng.pick([x for x in scn['nodes'] if x['type'] == 'J'])
            edits.append({'kind': 'elevation', 'node': j['id'], 'value': round(j['elev'] + rng.pick([-3.0, 4.0]), 2)})
        elif k == 'reservoir_head':
            r = rng.pick([x for x in scn['nodes'] if x['type'] == 'R'])
            if r.get('pattern') == 'HSWEEP':
                continue
            edits.append({'kind': 'reservoir_head', 'node': r['id'], 'value': round(r['head'] + rng.pick([-4.0, 3.0]), 2)})
        elif k == 'tank_init':
            ts = [x for x in scn['nodes'] if x['type'] == 'T']
            if ts:
                t = rng.pick(ts)
                edits.append({'kind': 'tank_init', 'node': t['id'], 'value': round(t['min'] + (t['max'] - t['min']) * rng.uni(0.2, 0.8), 3)})
    return edits


def apply_edits(wn, scn2, edits):
    """apply the edits to the live model (public API) and to the scenario dict the oracles read"""
    lm = {l['id']: l for l in scn2['links']}
    nm = {x['id']: x for x in scn2['nodes']}
    for e in edits:
        k = e['kind']
        if k == 'pipe':
            if e['id'] not in lm:
                continue
            obj = wn.get_link(e['id'])
            setattr(obj, {'diam': 'diameter', 'len': 'length', 'rough': 'roughness', 'minor': 'minor_loss'}[e['attr']], e['value'])
            lm[e['id']][e['attr']] = e['value']
        elif k == 'pattern':
            if e['name'] not in scn2['patterns']:
                continue
            wn.get_pattern(e['name']).multipliers = list(e['mults'])
            scn2['patterns'][e['name']] = list(e['mults'])
        elif k == 'demand':
            if e['node'] not in nm or e['i'] >= len(nm[e['node']].get('demands', [])):
                continue
            wn.get_node(e['node']).demand_timeseries_list[e['i']].base_value = e['value']
            nm[e['node']]['demands'][e['i']][0] = e['value']
        elif k == 'curve_points':
            if e['curve'] not in scn2['curves']:
                continue
            wn.get_curve(e['curve']).points = [tuple(p_) for p_ in e['points']]
            scn2['curves'][e['curve']]['points'] = [list(p_) for p_ in e['points']]
        elif k == 'valve_setting':
            if e['id'] not in lm:
                continue
            wn.get_link(e['id']).initial_setting = e['value']
            lm[e['id']]['setting'] = e['value']
        elif k == 'initial_status':
            if e['id'] not in lm or lm[e['id']]['type'] != 'pipe' or lm[e['id']].get('cv'):
                continue
            wn.get_link(e['id']).initial_status = e['value']
            lm[e['id']]['status'] = e['value']
        elif k in ('same_simulator', 'short_first_run'):
            pass
        elif k == 'multiplier':
            wn.options.hydraulic.demand_multiplier = e['value']
            scn2['options']['multiplier'] = e['value']
        elif k == 'elevation':
            if e['node'] not in nm:
                continue
            wn.get_node(e['node']).elevation = e['value']
            nm[e['node']]['elev'] = e['value']
        elif k == 'reservoir_head':
            if e['node'] not in nm:
                continue
            wn.get_node(e['node']).base_head = e['value']
            nm[e['node']]['head'] = e['value']
        elif k == 'tank_init':
            if e['node'] not in nm:
                continue
            wn.get_node(e['node']).init_level = e['value']
            nm[e['node']]['init'] = e['value']


def edit_and_rerun(scn):
    """first run, edits, reset_initial_values, second run on the SAME model object -> (RunOut of the second run, edited scenario) or None"""
    s1 = world.clone(scn)
    s1['faults'] = []
    wn = world.build(s1)
    if any(e['kind'] == 'short_first_run' for e in scn['edits']):
        s1['options']['duration'] = s1['options']['hyd_step']     # the first run ends after one hydraulic step; the rerun is the full one
    holder = {} if any(e['kind'] == 'same_simulator' for e in scn['edits']) else None
    first = runsim.run_world(s1, wn=wn, sim_holder=holder)
    if first.exc is not None or not first.parts or first.parts[-1].error_code is not None:
        return None
    s2 = world.clone(s1)
    s2['options']['duration'] = scn['options']['duration']
    apply_edits(wn, s2, scn['edits'])
    wn.options.time.duration = s2['options']['duration']
    wn.reset_initial_values()
    second = runsim.run_world(s2, wn=wn, sim_holder=holder)
    second.tables = concat(second.parts) if second.parts else None
    return second, s2
