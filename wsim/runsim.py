"""Engine E1: one world -> one simulated run of the real WNTRSimulator under the taps."""
import io
import os
import pickle
import copy
import shutil
import tempfile
import traceback
import warnings

from . import taps
from . import world

REPO = os.environ.get('VERIF_REPO', '/repo')


class RunOut(object):
    """Outcome of one run_sim call (or of a paused sequence of them)."""

    def __init__(self):
        self.results = None
        self.exc = None          # exception instance raised by run_sim (None if it returned)
        self.exc_tb = None
        self.exc_site = None     # innermost frame inside the repo
        self.warnings = []       # list of str
        self.rec = None
        self.wn = None
        self.parts = []          # for paused runs: list of results objects

    @property
    def ok(self):
        return self.exc is None


def innermost_repo_frame(tb):
    site = None
    for fr in traceback.extract_tb(tb):
        fn = os.path.realpath(fr.filename)
        if fn.startswith(os.path.realpath(REPO) + os.sep):
            site = '%s:%s' % (os.path.relpath(fn, os.path.realpath(REPO)), fr.name)
    return site


def run_once(wn, scn, rec, wall_cap=60, sim_holder=None):
    """One call of WNTRSimulator(wn).run_sim under taps.  Returns (results|None, exc|None, tb, warnings)."""
    import wntr
    from wntr.sim.solvers import NewtonSolver
    run = scn.get('run', {})
    backup = run.get('backup')
    kw = dict(solver=NewtonSolver, solver_options=dict(run.get('solver_options') or {}),
              convergence_error=bool(run.get('convergence_error', False)),
              HW_approx=run.get('hw_approx', 'default'))
    if backup is not None:
        kw['backup_solver'] = NewtonSolver
        kw['backup_solver_options'] = dict(backup.get('options') or {})
        if backup.get('solver') == 'fsolve':
            import scipy.optimize
            kw['backup_solver'] = scipy.optimize.fsolve
        elif backup.get('solver') == 'krylov':
            import scipy.optimize
            kw['backup_solver'] = scipy.optimize.newton_krylov
    rec.wn = wn
    res = None
    exc = None
    tb = None
    with warnings.catch_warnings(record=True) as wlist:
        warnings.simplefilter('always', append=True)   # repo's 'error' filter for MatrixRankWarning keeps priority
        try:
            with taps.Taps(rec, wall_cap=wall_cap):
                # sim_holder: reuse one simulator object over several run_sim calls (a legitimate way to rerun after a reset)
                if sim_holder is not None and sim_holder.get('sim') is not None and sim_holder.get('wn') is wn:
                    sim = sim_holder['sim']
                else:
                    sim = wntr.sim.WNTRSimulator(wn)
                    if sim_holder is not None:
                        sim_holder['sim'] = sim
                        sim_holder['wn'] = wn
                res = sim.run_sim(**kw)
        except taps.WsimTimeout:
            raise
        except Exception as e:   # noqa
            exc = e
            tb = e.__traceback__
    wl = [str(w.message) for w in wlist]
    return res, exc, tb, wl


def run_world(scn, plan=None, monitor=None, pauses=None, persist='none', wn=None, caps=True, wall_cap=60, sim_holder=None):
    """Build the world and run it to scn.options.duration.

    pauses: list of intermediate durations (on the hydraulic grid); after each part the model is
    persisted with `persist` in {'none','pickle','deepcopy'} and a new simulator continues.
    """
    out = RunOut()
    if wn is None:
        wn = world.build(scn)
    rec = taps.Recorder(scn, plan=plan, monitor=monitor, caps=caps)
    out.rec = rec
    T = scn['options']['duration']
    stops = list(pauses or []) + [T]
    for i, stop in enumerate(stops):
        wn.options.time.duration = stop
        res, exc, tb, wl = run_once(wn, scn, rec, wall_cap=wall_cap, sim_holder=sim_holder)
        out.warnings.extend(wl)
        if exc is not None:
            out.exc = exc
            out.exc_tb = ''.join(traceback.format_exception(type(exc), exc, tb))[-3000:]
            out.exc_site = innermost_repo_frame(tb)
            break
        out.parts.append(res)
        if res.error_code is not None and int(res.error_code) != 0 and False:
            pass
        if i < len(stops) - 1:
            rec.events.append(['pause', stop, persist])
            rec.fire('pause.' + persist)
            try:
                if persist == 'pickle':
                    wn = pickle.loads(pickle.dumps(wn))
                elif persist == 'deepcopy':
                    wn = copy.deepcopy(wn)
            except Exception as e:  # noqa  - a paused model that cannot be persisted: the history ends here, the caller judges it
                out.exc = e
                out.exc_tb = 'persisting (%s) the model paused at %r: ' % (persist, stop) + ''.join(traceback.format_exception(type(e), e, e.__traceback__))[-2500:]
                out.exc_site = 'persist.' + persist
                break
            rec.min_time = float(stop)      # the continued run must only solve times after the pause
            # a failed part stops the history
            if res.error_code is not None:
                break
    wn.options.time.duration = T
    out.wn = wn
    if out.parts:
        out.results = out.parts[-1] if len(out.parts) == 1 else None
    return out


class Scratch(object):
    """per-run scratch directory outside /repo and /verif, removed on exit"""

    def __init__(self):
        self.dir = None
        self.cwd = None

    def __enter__(self):
        base = os.environ.get('WSIM_TMP') or tempfile.gettempdir()
        self.dir = tempfile.mkdtemp(prefix='wsim-%d-' % os.getpid(), dir=base)
        # libepanet creates its temporary hydraulics file ("enXXXXXX") in the current directory and leaves it behind
        # when a run fails before ENclose; the run therefore works inside its scratch directory
        try:
            self.cwd = os.getcwd()
            os.chdir(self.dir)
        except OSError:
            self.cwd = None
        return self.dir

    def __exit__(self, *a):
        if self.cwd is not None:
            try:
                os.chdir(self.cwd)
            except OSError:
                pass
        shutil.rmtree(self.dir, ignore_errors=True)
        return False
