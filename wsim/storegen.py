"""Seeded edit histories for engine E2 (generated against the mirror only, so seed -> history is a pure function)."""
from . import store

SOURCE_TYPES = ['CONCEN', 'MASS', 'FLOWPACED', 'SETPOINT']

OPTION_CHOICES = [
    ('time.duration', [3600, 86400, 7200 * 5, 90000]),
    ('time.hydraulic_timestep', [600, 900, 1800, 3600]),
    ('time.quality_timestep', [60, 300, 360]),
    ('time.rule_timestep', [60, 300, 360, 600]),
    ('time.pattern_timestep', [1800, 3600, 7200]),
    ('time.pattern_start', [0, 3600, 1800]),
    ('time.report_timestep', [900, 1800, 3600]),
    ('time.report_start', [0, 3600]),
    ('time.start_clocktime', [0, 3600, 43200, 7200 + 1800, 1800, 45000, 86340, 46861]),
    ('time.statistic', ['NONE', 'AVERAGED', 'MINIMUM', 'MAXIMUM', 'RANGE']),
    ('hydraulic.viscosity', [1.0, 1.1, 1.0123456]),
    ('hydraulic.specific_gravity', [1.0, 0.98, 0.9987654]),
    ('hydraulic.demand_multiplier', [1.0, 1.5, 0.8, 1.2345678]),
    ('hydraulic.demand_model', ['DDA', 'PDA']),
    ('hydraulic.minimum_pressure', [0.0, 2.0]),
    ('hydraulic.required_pressure', [10.0, 20.0, 0.1]),
    ('hydraulic.pressure_exponent', [0.5, 0.7]),
    ('hydraulic.emitter_exponent', [0.5, 0.6, 0.5123456]),
    ('hydraulic.trials', [200, 40]),
    ('hydraulic.accuracy', [0.001, 0.0001, 1.234567e-5]),
    ('hydraulic.unbalanced', ['STOP', 'CONTINUE']),
    ('hydraulic.checkfreq', [2, 3]),
    ('hydraulic.maxcheck', [10, 12]),
    ('hydraulic.damplimit', [0.0, 0.1, 0.0123456]),
    ('hydraulic.headerror', [0.0, 0.01, 0.0012345]),
    ('hydraulic.flowchange', [0.0, 0.001, 1.23456e-5]),
    ('quality.parameter', ['NONE', 'CHEMICAL', 'AGE']),
    ('quality.inpfile_units', ['mg/L', 'ug/L']),
    ('quality.diffusivity', [1.0, 1.2, 1.0123456]),
    ('quality.tolerance', [0.01, 0.02, 0.0123456]),
    ('reaction.bulk_order', [1.0, 2.0]),
    ('reaction.wall_order', [1.0, 0.0]),
    ('reaction.tank_order', [1.0, 2.0]),
    ('reaction.bulk_coeff', [0.0, -1e-5, -1.234567e-6]),
    ('reaction.wall_coeff', [0.0, -2e-6, -3.456789e-7]),
    ('reaction.limiting_potential', [None, 1.0, 0.0012345]),
    ('reaction.roughness_correl', [None, 0.5, 0.1234567]),
    ('energy.global_price', [0, 3.0e-8, 2.7777777e-8]),
    ('energy.global_efficiency', [None, 75.0, 66.666666]),
    ('energy.demand_charge', [None, 0.5, 0.1234567]),
    ('user.scenario', ['baseline', 'fire flow']),
    ('user.run_id', [7, 3.25]),
    ('report.status', ['YES', 'FULL', 'NO']),
    ('report.energy', ['YES', 'NO']),
    ('report.pagesize', [None, 40]),
    ('graphics.units', ['NONE', 'METERS']),
    ('graphics.dimensions', [None, [0.0, 0.0, 1000.0, 1000.0]]),
]


def _r(x, nd=6):
    return float(round(x, nd))


class Gen(object):
    def __init__(self, rng, profile):
        self.rng = rng
        self.p = profile
        self.m = store.Mirror()
        self.ops = []
        self.n = {}
        self.levels = {}      # tank -> (min, max)

    def name(self, prefix):
        self.n[prefix] = self.n.get(prefix, 0) + 1
        return '%s%d' % (prefix, self.n[prefix])

    def emit(self, op):
        r = store.mirror_step(self.m, op)
        if r != 'skip':
            self.ops.append(op)
        return r

    # -------------------------------------------------- pickers
    def some(self, names):
        names = list(names)
        return self.rng.pick(names) if names else None

    def pattern_or_none(self, p=0.5):
        if self.m.patterns and self.rng.chance(p):
            return self.some(self.m.patterns)
        return None

    def curve_of(self, ctype):
        return self.some([k for k, c in self.m.curves.items() if c['type'] == ctype])

    def xy(self):
        return [_r(self.rng.uni(0, 1000), 2), _r(self.rng.uni(0, 1000), 2)]

    # -------------------------------------------------- operations
    def op_add_pattern(self):
        n = self.rng.irange(1, 8)
        return {'op': 'add_pattern', 'name': self.name('P'), 'mults': [_r(self.rng.uni(0.2, 2.0), 3) for _ in range(n)]}

    def op_add_curve(self, ctype=None):
        rng = self.rng
        ctype = ctype or rng.pick(['HEAD', 'HEAD', 'VOLUME', 'EFFICIENCY', 'HEADLOSS'])
        if ctype == 'HEAD':
            q = rng.uni(0.005, 0.1)
            h = rng.uni(10, 80)
            npts = rng.pick([1, 3, 3, 4])
            if npts == 1:
                pts = [[_r(q), _r(h, 3)]]
            elif npts == 3:
                pts = [[0.0, _r(h * 1.33, 3)], [_r(q), _r(h, 3)], [_r(2 * q), 0.0]]
            else:
                pts = [[0.0, _r(h * 1.4, 3)], [_r(q * 0.5), _r(h * 1.2, 3)], [_r(q), _r(h, 3)], [_r(q * 1.8), _r(h * 0.3, 3)]]
        elif ctype == 'VOLUME':
            top = rng.uni(6, 20)
            k = rng.irange(2, 5)
            pts = [[_r(top * i / (k - 1), 3), _r(50.0 * (top * i / (k - 1)) * rng.uni(0.9, 1.1) if i else 0.0, 3)] for i in range(k)]
            for i in range(1, k):
                pts[i][1] = max(pts[i][1], pts[i - 1][1] + 1.0)
        elif ctype == 'EFFICIENCY':
            pts = [[_r(0.01 * i), _r(50 + 10 * i - 3 * i * i, 2)] for i in range(1, 4)]
        else:
            pts = [[_r(0.01 * i), _r(2.0 * i * i, 3)] for i in range(0, 4)]
        return {'op': 'add_curve', 'name': self.name('C'), 'ctype': ctype, 'points': pts}

    def op_add_junction(self):
        rng = self.rng
        return {'op': 'add_junction', 'name': self.name('J'), 'base': _r(rng.uni(0, 0.01)), 'pattern': self.pattern_or_none(0.6),
                'elev': _r(rng.uni(0, 50), 2), 'xy': self.xy(), 'cat': rng.pick([None, None, 'dom', 'ind'])}

    def op_add_tank(self):
        rng = self.rng
        mn = rng.pick([0.0, 0.5, 1.0])
        mx = _r(mn + rng.uni(2, 5), 2)
        vc = self.curve_of('VOLUME') if rng.chance(0.4) else None
        return {'op': 'add_tank', 'name': self.name('T'), 'elev': _r(rng.uni(20, 80), 2), 'init': _r(mn + (mx - mn) * rng.uni(0.1, 0.9), 2),
                'min': mn, 'max': mx, 'diam': rng.pick([5.0, 10.0, 12.5]), 'min_vol': rng.pick([0.0, 0.0, 3.0]), 'vol_curve': vc,
                'overflow': rng.chance(0.2), 'xy': self.xy()}

    def op_add_reservoir(self):
        return {'op': 'add_reservoir', 'name': self.name('R'), 'head': _r(self.rng.uni(30, 120), 2), 'pattern': self.pattern_or_none(0.4), 'xy': self.xy()}

    def two_nodes(self):
        ns = list(self.m.nodes)
        if len(ns) < 2:
            return None, None
        a = self.rng.pick(ns)
        b = self.rng.pick([x for x in ns if x != a])
        return a, b

    def op_add_pipe(self):
        rng = self.rng
        a, b = self.two_nodes()
        if a is None:
            return None
        st = rng.pick(['OPEN', 'OPEN', 'CLOSED'])
        cv = rng.chance(0.15)
        return {'op': 'add_pipe', 'name': self.name('p'), 'a': a, 'b': b, 'len': _r(rng.uni(10, 3000), 3), 'diam': rng.pick([0.1, 0.1524, 0.3, 0.4572, 0.75]),
                'rough': float(rng.pick([80, 100, 130, 145.5])), 'minor': rng.pick([0.0, 0.0, 0.5, 12.0]), 'status': 'OPEN' if cv else st, 'cv': cv}

    def op_add_pump(self):
        rng = self.rng
        a, b = self.two_nodes()
        if a is None:
            return None
        hc = self.curve_of('HEAD')
        if hc and rng.chance(0.7):
            pt, par = 'HEAD', hc
        else:
            pt, par = 'POWER', _r(rng.uni(500, 50000), 1)
        return {'op': 'add_pump', 'name': self.name('u'), 'a': a, 'b': b, 'ptype': pt, 'param': par, 'speed': rng.pick([1.0, 1.0, 0.8, 1.2]),
                'pattern': self.pattern_or_none(0.4), 'status': rng.pick(['OPEN', 'OPEN', 'CLOSED'])}

    def op_add_valve(self):
        rng = self.rng
        a, b = self.two_nodes()
        if a is None:
            return None
        vt = rng.pick(self.p.get('vtypes', store.VTYPES))
        op = {'op': 'add_valve', 'name': self.name('v'), 'a': a, 'b': b, 'diam': rng.pick([0.1, 0.2, 0.3048]), 'vtype': vt,
              'minor': rng.pick([0.0, 0.0, 2.5]), 'status': rng.pick(['ACTIVE', 'ACTIVE', 'OPEN', 'CLOSED'])}
        if vt in ('PRV', 'PSV', 'PBV'):
            op['setting'] = _r(rng.uni(5, 60), 3)
        elif vt == 'FCV':
            op['setting'] = _r(rng.uni(0.001, 0.05), 6)
        elif vt == 'TCV':
            op['setting'] = _r(rng.uni(0, 200), 3)
        else:
            cu = self.curve_of('HEADLOSS')
            if cu is None:
                return None
            op['curve'] = cu
            op['setting'] = cu
        return op

    def op_add_source(self):
        n = self.some(self.m.nodes)
        if n is None:
            return None
        nm = self.name('S')
        mine = [ln for ln, l in self.m.links.items() if n in (l['a'], l['b']) and ln not in self.m.sources]
        if mine and self.rng.chance(0.12):
            nm = self.rng.pick(sorted(mine))      # names of sources and links live in different registries: the same name is allowed
        return {'op': 'add_source', 'name': nm, 'node': n, 'stype': self.rng.pick(SOURCE_TYPES), 'quality': _r(self.rng.uni(0.0001, 0.01), 6),
                'pattern': self.pattern_or_none(0.5)}

    def op_add_demand(self):
        j = self.some([k for k, n in self.m.nodes.items() if n['type'] == 'J'])
        if j is None:
            return None
        return {'op': 'add_demand', 'node': j, 'base': _r(self.rng.uni(0, 0.01)), 'pattern': self.pattern_or_none(0.6), 'cat': self.rng.pick([None, 'dom', 'fire'])}

    # ---- controls
    def action(self, lname=None):
        rng = self.rng
        lname = lname or self.some(self.m.links)
        l = self.m.links[lname]
        if l['type'] == 'valve' and l['vtype'] != 'GPV' and rng.chance(0.5):
            v = {'PRV': 30.0, 'PSV': 25.0, 'PBV': 12.0, 'FCV': 0.01, 'TCV': 50.0}[l['vtype']]
            return {'link': lname, 'attr': 'setting', 'value': _r(v * rng.pick([0.5, 1.0, 1.5]), 6)}
        if l['type'] == 'pump' and rng.chance(0.3):
            return {'link': lname, 'attr': 'base_speed', 'value': rng.pick([0.5, 0.8, 1.2])}
        vals = ['OPEN', 'CLOSED'] + (['ACTIVE'] if l['type'] == 'valve' else [])
        return {'link': lname, 'attr': 'status', 'value': rng.pick(vals)}

    def simple_cond(self, allow=('simtime', 'clock', 'level', 'pressure'), rule=False):
        rng = self.rng
        tanks = [k for k, n in self.m.nodes.items() if n['type'] == 'T']
        juncs = [k for k, n in self.m.nodes.items() if n['type'] == 'J']
        kinds = [k for k in allow if (k != 'level' or tanks) and (k != 'pressure' or juncs)]
        k = rng.pick(kinds)
        rels = ['>=', '<=', '>', '<', '='] if rule else ['=']
        if k == 'simtime':
            return {'t': 'simtime', 'rel': rng.pick(rels), 'thr': int(rng.pick([0, 3600, 7200, 5400, 90000, 86400, 12 * 3600 + 360, 45]))}
        if k == 'clock':
            return {'t': 'clock', 'rel': rng.pick(rels), 'thr': int(rng.pick([0, 3600, 6 * 3600, 12 * 3600, 12 * 3600 + 1800, 23 * 3600 + 59 * 60, 360, 13 * 3600]))}
        if k == 'level':
            t = rng.pick(tanks)
            return {'t': 'level', 'tank': t, 'attr': rng.pick(self.p.get('tank_attrs', ['level'])), 'rel': rng.pick(['<', '>'] + (['<=', '>='] if rule else [])),
                    'thr': _r(rng.uni(0.5, 6), 3)}
        j = rng.pick(juncs)
        return {'t': 'pressure', 'node': j, 'rel': rng.pick(['<', '>'] + (['<=', '>='] if rule else [])), 'thr': _r(rng.uni(5, 60), 3)}

    def op_add_control(self):
        rng = self.rng
        if not self.m.links:
            return None
        if rng.chance(self.p.get('p_rule', 0.5)):
            # premise list as EPANET reads it: a conjunction of OR-groups
            groups = []
            for _ in range(rng.pick([1, 1, 1, 2, 2, 3])):
                g = self.simple_cond(rule=True)
                for _ in range(rng.pick([0, 0, 0, 1, 2])):
                    g = {'t': 'or', 'a': g, 'b': self.simple_cond(rule=True)}
                groups.append(g)
            cond = groups[0]
            for g in groups[1:]:
                cond = {'t': 'and', 'a': cond, 'b': g}
            if rng.chance(self.p.get('p_nested_condition', 0.0)):
                # a grouping the rule text cannot express: (A AND B) OR C
                cond = {'t': 'or', 'a': {'t': 'and', 'a': self.simple_cond(rule=True), 'b': self.simple_cond(rule=True)}, 'b': self.simple_cond(rule=True)}
            then = [self.action() for _ in range(rng.pick([1, 1, 2]))]
            els = [self.action() for _ in range(rng.pick([0, 0, 1, 2]))]
            spec = {'kind': 'rule', 'cond': cond, 'then': then, 'else': els, 'priority': rng.pick([0, 1, 2, 3, 3, 4, 5, 6])}
        else:
            spec = {'kind': 'simple', 'cond': self.simple_cond(), 'then': [self.action()], 'priority': 3}
        return {'op': 'add_control', 'name': self.name('k'), 'spec': spec}

    # ---- removals (half of them aimed at elements that are in use -> must be refused)
    def op_remove(self):
        rng = self.rng
        m = self.m
        kind = rng.wpick([('node', 3), ('link', 3), ('pattern', 2), ('curve', 2), ('source', 1), ('control', 1)])
        if kind == 'node':
            n = self.some(m.nodes)
            return None if n is None else {'op': 'remove_node', 'name': n, 'with_control': rng.chance(0.5)}
        if kind == 'link':
            n = self.some(m.links)
            return None if n is None else {'op': 'remove_link', 'name': n, 'with_control': rng.chance(0.5)}
        if kind == 'pattern':
            n = self.some(m.patterns)
            return None if n is None else {'op': 'remove_pattern', 'name': n}
        if kind == 'curve':
            n = self.some(m.curves)
            return None if n is None else {'op': 'remove_curve', 'name': n}
        if kind == 'source':
            n = self.some(m.sources)
            return None if n is None else {'op': 'remove_source', 'name': n}
        n = self.some(m.controls)
        return None if n is None else {'op': 'remove_control', 'name': n}

    def op_remove_free_node(self):
        """a node nothing is attached to (so the removal must succeed)"""
        free = [n for n in self.m.nodes if not self.m.node_users(n)]
        n = self.some(free)
        return None if n is None else {'op': 'remove_node', 'name': n, 'with_control': self.rng.chance(0.7)}

    def op_set_end(self):
        l = self.some(self.m.links)
        n = self.some(self.m.nodes)
        if l is None or n is None:
            return None
        if self.rng.chance(0.25):
            return {'op': 'reverse_link', 'link': l}     # wntr.morph.reverse_link: both ends reassigned through the setters
        return {'op': 'set_end', 'link': l, 'which': self.rng.pick(['start', 'end']), 'node': n}

    def op_set_ref(self):
        rng = self.rng
        m = self.m
        kind = rng.pick(['speed_pattern', 'pump_curve', 'head_pattern', 'vol_curve'])
        if kind == 'speed_pattern':
            e = self.some([k for k, l in m.links.items() if l['type'] == 'pump'])
            v = self.pattern_or_none(0.8)
        elif kind == 'pump_curve':
            e = self.some([k for k, l in m.links.items() if l['type'] == 'pump' and l['ptype'] == 'HEAD'])
            v = self.curve_of('HEAD')
        elif kind == 'head_pattern':
            e = self.some([k for k, n in m.nodes.items() if n['type'] == 'R'])
            v = self.pattern_or_none(0.8)
        else:
            e = self.some([k for k, n in m.nodes.items() if n['type'] == 'T'])
            v = self.curve_of('VOLUME') if rng.chance(0.8) else None
        if e is None:
            return None
        return {'op': 'set_ref', 'kind': kind, 'elem': e, 'value': v}

    def op_set_attr(self):
        rng = self.rng
        m = self.m
        if rng.chance(0.5) and m.nodes:
            n = self.some(m.nodes)
            t = m.nodes[n]['type']
            choices = [('tag', rng.pick(['zoneA', 'old', 'x1'])), ('initial_quality', rng.pick([0.0, 0.5e-3, 1e-3]))]
            if t == 'J':
                choices += [('emitter_coefficient', rng.pick([None, 0.001, 0.0005]))]
                if self.p.get('junction_pdd', True):
                    choices += [('minimum_pressure', rng.pick([None, 2.0])), ('required_pressure', rng.pick([None, 25.0])), ('pressure_exponent', rng.pick([None, 0.6]))]
            if t == 'T':
                choices += [('mixing_model', rng.pick(['MIXED', 'FIFO', 'LIFO'])), ('mixing_2comp', rng.pick([0.25, 0.5])), ('tank_bulk', rng.pick([None, -1e-6]))]
            a, v = rng.pick(choices)
            return {'op': 'set_attr', 'kind': 'node', 'name': n, 'attr': a, 'value': v}
        l = self.some(m.links)
        if l is None:
            return None
        t = m.links[l]['type']
        choices = [('tag', rng.pick(['main', 'svc'])), ('vertices', [self.xy() for _ in range(rng.irange(1, 3))])]
        if t == 'pipe':
            choices += [('bulk_coeff', rng.pick([None, -1e-6])), ('wall_coeff', rng.pick([None, -3e-7])), ('initial_status', rng.pick(['OPEN', 'CLOSED']))]
        if t == 'pump':
            choices += [('initial_status', rng.pick(['OPEN', 'CLOSED'])), ('energy_price', rng.pick([None, 2.5e-8]))]
            ec = self.curve_of('EFFICIENCY')
            if ec:
                choices.append(('efficiency_curve', ec))
            if m.patterns:
                choices.append(('energy_pattern', self.some(m.patterns)))
        if t == 'valve':
            choices += [('initial_status', rng.pick(['OPEN', 'CLOSED', 'ACTIVE']))]
            if m.links[l]['vtype'] != 'GPV':
                choices += [('initial_setting', _r(rng.uni(1, 50), 3))]
        a, v = rng.pick(choices)
        return {'op': 'set_attr', 'kind': 'link', 'name': l, 'attr': a, 'value': v}

    def op_leak(self):
        n = self.some([k for k, nd in self.m.nodes.items() if nd['type'] in ('J', 'T')])
        if n is None:
            return None
        if self.rng.chance(0.25):
            return {'op': 'remove_leak', 'node': n}
        return {'op': 'add_leak', 'node': n, 'area': _r(self.rng.uni(1e-5, 1e-2), 7), 'cd': self.rng.pick([0.75, 0.6]),
                'start': self.rng.pick([None, 0, 3600]), 'end': self.rng.pick([None, 7200, 86400])}

    def op_set_option(self):
        rng = self.rng
        if rng.chance(0.3):
            # several options at once (the pressure-driven group is only written together)
            if rng.chance(0.5):
                items = [('hydraulic.demand_model', 'PDA'), ('hydraulic.minimum_pressure', rng.pick([0.0, 2.0, 3.5])),
                         ('hydraulic.required_pressure', rng.pick([10.0, 20.0, 17.3])), ('hydraulic.pressure_exponent', rng.pick([0.5, 0.7]))]
            else:
                items = []
                for _ in range(rng.irange(2, 6)):
                    path, vals = rng.pick(OPTION_CHOICES)
                    items.append((path, rng.pick(vals)))
            return {'op': 'set_options', 'items': [list(x) for x in items]}
        path, vals = rng.pick(OPTION_CHOICES)
        return {'op': 'set_option', 'path': path, 'value': rng.pick(vals)}

    def op_quality(self):
        """water-quality attributes in one go: reaction orders that differ from each other and coefficients on existing tanks and pipes"""
        rng = self.rng
        ops = [{'op': 'set_options', 'items': [['reaction.bulk_order', rng.pick([1.0, 2.0, 0.0])], ['reaction.tank_order', rng.pick([1.0, 2.0, 0.0])],
                                                ['reaction.wall_order', rng.pick([1.0, 0.0])], ['quality.parameter', rng.pick(['CHEMICAL', 'CHEMICAL', 'AGE', 'NONE'])]]}]
        tanks = [k for k, n in self.m.nodes.items() if n['type'] == 'T']
        pipes = [k for k, l in self.m.links.items() if l['type'] == 'pipe']
        for t in tanks[:2]:
            if rng.chance(0.7):
                ops.append({'op': 'set_attr', 'kind': 'node', 'name': t, 'attr': 'tank_bulk', 'value': rng.pick([-1e-6, -2.5e-6, -1.234567e-5])})
        for pnm in pipes[:3]:
            if rng.chance(0.5):
                ops.append({'op': 'set_attr', 'kind': 'link', 'name': pnm, 'attr': rng.pick(['bulk_coeff', 'wall_coeff']), 'value': rng.pick([-1e-6, -3e-7, -1.234567e-6])})
        for n in list(self.m.nodes)[:3]:
            if rng.chance(0.4):
                ops.append({'op': 'set_attr', 'kind': 'node', 'name': n, 'attr': 'initial_quality', 'value': rng.pick([0.5e-3, 1e-3, 1.234567e-3])})
        return ops

    def op_restart(self):
        rng = self.rng
        how = rng.wpick(self.p['restarts'])
        op = {'op': 'restart', 'how': how}
        if how == 'inp':
            op['units'] = rng.pick(store.UNITS)
            op['version'] = rng.pick([2.2, 2.2, 2.0])
        return op


def gen_history(rng, profile):
    """profile: dict(weights={opkind: w}, n_ops=(lo,hi), restarts=[(how,w)], ...)"""
    g = Gen(rng, profile)
    w = dict(profile['weights'])
    # swarm: each history disables a random subset of operation kinds
    for k in list(w):
        if k not in ('add_junction', 'add_pipe', 'restart') and rng.chance(0.2):
            w[k] = 0.0
    n_ops = rng.irange(*profile['n_ops'])
    table = {
        'add_pattern': g.op_add_pattern, 'add_curve': g.op_add_curve, 'add_junction': g.op_add_junction, 'add_tank': g.op_add_tank,
        'add_reservoir': g.op_add_reservoir, 'add_pipe': g.op_add_pipe, 'add_pump': g.op_add_pump, 'add_valve': g.op_add_valve,
        'add_source': g.op_add_source, 'add_demand': g.op_add_demand, 'add_control': g.op_add_control, 'remove': g.op_remove,
        'remove_free_node': g.op_remove_free_node, 'set_end': g.op_set_end, 'set_ref': g.op_set_ref, 'set_attr': g.op_set_attr,
        'leak': g.op_leak, 'set_option': g.op_set_option, 'restart': g.op_restart, 'quality': g.op_quality,
    }
    pairs = [(k, w[k]) for k in sorted(w) if w[k] > 0]
    # a small seed population so that early operations have something to refer to
    for k in ('add_pattern', 'add_curve', 'add_junction', 'add_reservoir', 'add_junction', 'add_pipe'):
        if rng.chance(0.7):
            op = table[k]()
            if op:
                g.emit(op)
    guard = 0
    while len(g.ops) < n_ops and guard < 20 * n_ops:
        guard += 1
        k = rng.wpick(pairs)
        op = table[k]()
        if op is None:
            continue
        for o in (op if isinstance(op, list) else [op]):
            g.emit(o)
    return g.ops
