"""Small executable reference models.  They share no code with WNTR: everything is computed from the
scenario dict (SI units) with the formulas of the WNTR/EPANET documentation."""
import math

G = 9.81
RHO = 1000.0
HTOL = 0.0001524     # status head tolerance (m)
QTOL = 2.83168e-6    # status flow tolerance (m3/s)
HW_K = 10.666829500036352
HW_EXP = 1.852


# ---------------------------------------------------------------- patterns / demands
def pattern_value(mults, t, pattern_step):
    n = len(mults)
    if n == 0:
        return 1.0
    if n == 1:
        return mults[0]
    return mults[int(t // pattern_step) % n]


def requested_demand(scn, junction, t):
    """sum_i base_i * pattern_i(t + pattern_start) * multiplier"""
    o = scn['options']
    ps = o.get('pattern_step', 3600)
    t0 = t + o.get('pattern_start', 0)
    mult = o.get('multiplier', 1.0)
    dflt = o.get('default_pattern')
    tot = 0.0
    for base, pat, cat in junction.get('demands', []):
        if pat is None:
            pat = dflt if (dflt in scn.get('patterns', {})) else None
        pv = 1.0 if pat is None else pattern_value(scn['patterns'][pat], t0, ps)
        tot += base * pv * mult
    return tot


def reservoir_head(scn, res, t):
    o = scn['options']
    if not res.get('pattern'):
        return res['head']
    # WNTR evaluates head patterns at sim_time (no pattern_start): documented under source_head
    return res['head'] * pattern_value(scn['patterns'][res['pattern']], t, o.get('pattern_step', 3600))


# ---------------------------------------------------------------- reachability
def reachable(scn, closed):
    """set of node ids connected to a tank/reservoir through links not in `closed`"""
    adj = {n['id']: [] for n in scn['nodes']}
    for l in scn['links']:
        if l['id'] in closed:
            continue
        adj[l['a']].append(l['b'])
        adj[l['b']].append(l['a'])
    seen = set(n['id'] for n in scn['nodes'] if n['type'] in ('T', 'R'))
    todo = list(seen)
    while todo:
        x = todo.pop()
        for y in adj[x]:
            if y not in seen:
                seen.add(y)
                todo.append(y)
    return seen


# ---------------------------------------------------------------- tanks
def tank_volume(scn, tank, level):
    if tank.get('vol_curve'):
        pts = scn['curves'][tank['vol_curve']]['points']
        xs = [p[0] for p in pts]
        ys = [p[1] for p in pts]
        if level <= xs[0]:
            return ys[0]
        if level >= xs[-1]:
            return ys[-1]
        for i in range(1, len(xs)):
            if level <= xs[i]:
                f = (level - xs[i - 1]) / (xs[i] - xs[i - 1])
                return ys[i - 1] + f * (ys[i] - ys[i - 1])
    return math.pi * tank['diam'] ** 2 / 4.0 * level


def tank_area_at(scn, tank, level):
    """dV/dlevel (for the two-second overshoot bound)"""
    if tank.get('vol_curve'):
        pts = scn['curves'][tank['vol_curve']]['points']
        slopes = []
        for i in range(1, len(pts)):
            if pts[i - 1][0] - 1e-9 <= level <= pts[i][0] + 1e-9:
                slopes.append((pts[i][1] - pts[i - 1][1]) / (pts[i][0] - pts[i - 1][0]))
        if slopes:
            return max(min(slopes), 1e-9)
    return math.pi * tank['diam'] ** 2 / 4.0


# ---------------------------------------------------------------- head-flow laws
def pipe_resistance(l):
    return HW_K * l['rough'] ** (-HW_EXP) * l['diam'] ** (-4.871) * l['len']


def minor_coeff(l):
    k = l.get('minor', 0.0) or 0.0
    return 8.0 * k / (G * math.pi ** 2 * l['diam'] ** 4)


def pipe_headloss(l, q):
    """Hazen-Williams + minor loss, odd in q"""
    s = 1.0 if q >= 0 else -1.0
    return s * (pipe_resistance(l) * abs(q) ** HW_EXP + minor_coeff(l) * q * q)


def pipe_dhdq(l, q):
    return HW_EXP * pipe_resistance(l) * max(abs(q), 1e-12) ** (HW_EXP - 1.0) + 2.0 * minor_coeff(l) * abs(q)


def pump_coeffs(points):
    """reference fit of H = A - B*Q^C (EPANET conventions): 1 point -> design-point curve, 2 points -> the
    straight line through them, 3 points -> exact solve of the power law through the three points."""
    pts = [(float(a), float(b)) for a, b in points]
    if len(pts) == 1:
        q, h = pts[0]
        return 4.0 / 3.0 * h, h / (3.0 * q * q), 2.0
    if len(pts) == 2:
        (q0, h0), (q1, h1) = pts
        b = -(h1 - h0) / (q1 - q0)
        return h0 + b * q0, b, 1.0
    if len(pts) == 3 and pts[0][0] == 0.0:
        (q0, h0), (q1, h1), (q2, h2) = pts
        a = h0
        c = math.log((h0 - h2) / (h0 - h1)) / math.log(q2 / q1)
        b = (h0 - h1) / q1 ** c
        return a, b, c
    return None


def tcv_resistance(l, setting):
    return 8.0 * setting / (G * math.pi ** 2 * l['diam'] ** 4)


# ---------------------------------------------------------------- PDD and leaks
def pdd_fraction(p, pmin, preq, expo):
    if p <= pmin:
        return 0.0
    if p >= preq:
        return 1.0
    return ((p - pmin) / (preq - pmin)) ** expo


def leak_flow(cd, area, p):
    if p <= 0:
        return 0.0
    return cd * area * math.sqrt(2.0 * G * p)
