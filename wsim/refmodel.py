"""Small executable reference models.  They share no code with WNTR: everything is computed from the
scenario dict (SI units) with the formulas of the WNTR/EPANET documentation."""
import math

G = 9.81
RHO = 1000.0
HTOL = 0.0001524     # status head tolerance (m)
QTOL = 2.83168e-6    # status flow tolerance (m3/s)
HW_K = 10.666829500036352
HW_EXP = 1.852


# ---------------------------------------------------------------- patterns / demands
def pattern_value(mults, t, pattern_step):
    n = len(mults)
    if n == 0:
        return 1.0
    if n == 1:
        return mults[0]
    return mults[int(t // pattern_step) % n]


def requested_demand(scn, junction, t):
    """sum_i base_i * pattern_i(t + pattern_start) * multiplier"""
    o = scn['options']
    ps = o.get('pattern_step', 3600)
    t0 = t + o.get('pattern_start', 0)
    mult = o.get('multiplier', 1.0)
    dflt = o.get('default_pattern')
    tot = 0.0
    for base, pat, cat in junction.get('demands', []):
        if pat is None:
            pat = dflt if (dflt in scn.get('patterns', {})) else None
        pv = 1.0 if pat is None else pattern_value(scn['patterns'][pat], t0, ps)
        tot += base * pv * mult
    return tot


def reservoir_head(scn, res, t):
    o = scn['options']
    if not res.get('pattern'):
        return res['head']
    # every pattern is offset by pattern_start (as in EPANET)
    return res['head'] * pattern_value(scn['patterns'][res['pattern']], t + o.get('pattern_start', 0), o.get('pattern_step', 3600))


# ---------------------------------------------------------------- reachability
def reachable(scn, closed):
    """set of node ids connected to a tank/reservoir through links not in `closed`"""
    adj = {n['id']: [] for n in scn['nodes']}
    for l in scn['links']:
        if l['id'] in closed:
            continue
        adj[l['a']].append(l['b'])
        adj[l['b']].append(l['a'])
    seen = set(n['id'] for n in scn['nodes'] if n['type'] in ('T', 'R'))
    todo = list(seen)
    while todo:
        x = todo.pop()
        for y in adj[x]:
            if y not in seen:
                seen.add(y)
                todo.append(y)
    return seen


# ---------------------------------------------------------------- tanks
def tank_volume(scn, tank, level):
    if tank.get('vol_curve'):
        pts = scn['curves'][tank['vol_curve']]['points']
        xs = [p[0] for p in pts]
        ys = [p[1] for p in pts]
        if level <= xs[0]:
            return ys[0]
        if level >= xs[-1]:
            return ys[-1]
        for i in range(1, len(xs)):
            if level <= xs[i]:
                f = (level - xs[i - 1]) / (xs[i] - xs[i - 1])
                return ys[i - 1] + f * (ys[i] - ys[i - 1])
    return math.pi * tank['diam'] ** 2 / 4.0 * level


def tank_area_at(scn, tank, level):
    """dV/dlevel (for the two-second overshoot bound)"""
    if tank.get('vol_curve'):
        pts = scn['curves'][tank['vol_curve']]['points']
        slopes = []
        for i in range(1, len(pts)):
            if pts[i - 1][0] - 1e-9 <= level <= pts[i][0] + 1e-9:
                slopes.append((pts[i][1] - pts[i - 1][1]) / (pts[i][0] - pts[i - 1][0]))
        if slopes:
            return max(min(slopes), 1e-9)
    return math.pi * tank['diam'] ** 2 / 4.0


# ---------------------------------------------------------------- head-flow laws
def pipe_resistance(l):
    return HW_K * l['rough'] ** (-HW_EXP) * l['diam'] ** (-4.871) * l['len']


def minor_coeff(l):
    k = l.get('minor', 0.0) or 0.0
    return 8.0 * k / (G * math.pi ** 2 * l['diam'] ** 4)


def pipe_headloss(l, q):
    """Hazen-Williams + minor loss, odd in q"""
    s = 1.0 if q >= 0 else -1.0
    return s * (pipe_resistance(l) * abs(q) ** HW_EXP + minor_coeff(l) * q * q)


def pipe_dhdq(l, q):
    return HW_EXP * pipe_resistance(l) * max(abs(q), 1e-12) ** (HW_EXP - 1.0) + 2.0 * minor_coeff(l) * abs(q)


def pump_coeffs(points):
    """reference fit of H = A - B*Q^C (EPANET conventions): 1 point -> design-point curve, 2 points -> the
    straight line through them, 3 points -> exact solve of the power law through the three points."""
    pts = [(float(a), float(b)) for a, b in points]
    if len(pts) == 1:
        q, h = pts[0]
        return 4.0 / 3.0 * h, h / (3.0 * q * q), 2.0
    if len(pts) == 2:
        (q0, h0), (q1, h1) = pts
        b = -(h1 - h0) / (q1 - q0)
        return h0 + b * q0, b, 1.0
    if len(pts) == 3 and pts[0][0] == 0.0:
        (q0, h0), (q1, h1), (q2, h2) = pts
        a = h0
        c = math.log((h0 - h2) / (h0 - h1)) / math.log(q2 / q1)
        b = (h0 - h1) / q1 ** c
        return a, b, c
    return None


def tcv_resistance(l, setting):
    return 8.0 * setting / (G * math.pi ** 2 * l['diam'] ** 4)


# ---------------------------------------------------------------- PDD and leaks
def pdd_fraction(p, pmin, preq, expo):
    if p <= pmin:
        return 0.0
    if p >= preq:
        return 1.0
    return ((p - pmin) / (preq - pmin)) ** expo


def leak_flow(cd, area, p):
    if p <= 0:
        return 0.0
    return cd * area * math.sqrt(2.0 * G * p)


# ---------------------------------------------------------------- control timeline (C04)
def clock_of(t, opts):
    return (int(t) + int(opts.get('start_clocktime', 0))) % 86400


def _rel(x, rel, thr):
    if rel == '=':
        return x == thr
    if rel == '>=':
        return x >= thr
    if rel == '<=':
        return x <= thr
    if rel == '>':
        return x > thr
    if rel == '<':
        return x < thr
    raise ValueError(rel)


def time_cond_at(cond, t, opts):
    """truth of a (compound) time condition at a rule evaluation instant t; '=' thresholds lie on the rule grid"""
    k = cond['t']
    if k == 'and':
        return time_cond_at(cond['a'], t, opts) and time_cond_at(cond['b'], t, opts)
    if k == 'or':
        return time_cond_at(cond['a'], t, opts) or time_cond_at(cond['b'], t, opts)
    if k == 'simtime':
        if cond.get('repeat') and cond['rel'] == '=':
            return t >= cond['thr'] and (t - cond['thr']) % int(cond['repeat']) == 0
        return _rel(int(t), cond['rel'], int(cond['thr']))
    if k == 'clock':
        start = int(opts.get('start_clocktime', 0))
        fd = int(cond.get('first_day', 0))
        thr = int(cond['thr'])
        if cond.get('once'):
            # a single trigger on clock day first_day: after/before are not reset at midnight
            if thr < start and fd < 1:
                fd = 1
            if (int(t) + start) // 86400 < fd:
                return False
            return _rel(int(t) + start - fd * 86400, cond['rel'], thr)
        if (int(t) + start) // 86400 < fd:
            return False
        return _rel(clock_of(t, opts), cond['rel'], thr)
    raise ValueError('not a time condition: %r' % (cond,))


def simple_instants(cond, opts):
    """instants in [0, duration] at which a simple AT TIME / AT CLOCKTIME control fires"""
    dur = int(opts['duration'])
    if cond['t'] == 'simtime':
        thr = int(cond['thr'])
        rep = int(cond.get('repeat') or 0)
        out = []
        t = thr
        while 0 <= t <= dur:
            out.append(t)
            if not rep:
                break
            t += rep
        return out
    if cond['t'] == 'clock':
        start = int(opts.get('start_clocktime', 0))
        thr = int(cond['thr'])
        fd = int(cond.get('first_day', 0))
        if cond.get('once'):
            # once, on clock day first_day (days counted from 12 AM of the day the simulation starts); a threshold that is
            # earlier in the day than the start of the simulation means the next day (documented in the constructor)
            if thr < start and fd < 1:
                fd = 1
            t = thr + fd * 86400 - start
            return [t] if 0 <= t <= dur else []
        t = (thr - start) % 86400
        out = []
        while t <= dur:
            if (t + start) // 86400 >= fd:
                out.append(t)
            t += 86400
        return out
    raise ValueError('not a simple time condition: %r' % (cond,))


def action_value(a):
    if a['attr'] == 'status':
        return {'CLOSED': 0, 'OPEN': 1, 'ACTIVE': 2}[a['value']]
    return float(a['value'])


def control_timeline(scn):
    """Reference timeline of every (link, attr) commanded by time controls and time rules.
    Returns (initial, changes, ties): initial {target: value}; changes = sorted list of (t, {target: new value}) holding only
    real changes; ties = set of (t, target) where two actions of equal priority and different value meet (not ordered by the
    statement -> the caller skips them)."""
    o = scn['options']
    dur = int(o['duration'])
    rs = int(o.get('rule_step', 360))
    links = {l['id']: l for l in scn['links']}
    rules = [c for c in scn.get('controls', []) if c['kind'] == 'rule']
    simples = [c for c in scn.get('controls', []) if c['kind'] == 'simple']
    state = {}
    for c in scn.get('controls', []):
        for a in c['then'] + c.get('else', []):
            l = links[a['link']]
            if a['attr'] == 'status':
                state[(a['link'], 'status')] = {'CLOSED': 0, 'OPEN': 1, 'ACTIVE': 2}[l.get('status', 'OPEN')]
            elif a['attr'] == 'setting':
                state[(a['link'], 'setting')] = float(l['setting'])
            else:
                state[(a['link'], a['attr'])] = float(l.get('speed', 1.0))
    initial = dict(state)
    inst = {}
    for c in simples:
        for t in simple_instants(c['cond'], o):
            inst.setdefault(t, []).append(c)
    times = set(inst)
    if rules:
        times |= set(range(rs, dur + 1, rs))
    changes = []
    ties = set()
    for t in sorted(times):
        acts = []       # (priority, order, target, value) in execution order
        if rules and t > 0 and t % rs == 0:
            for c in sorted(rules, key=lambda c: c.get('priority', 3)):
                branch = c['then'] if time_cond_at(c['cond'], t, o) else c.get('else', [])
                for a in branch:
                    acts.append((c.get('priority', 3), 'rule', (a['link'], a['attr']), action_value(a)))
        for c in sorted(inst.get(t, []), key=lambda c: c.get('priority', 3)):
            a = c['then'][0]
            acts.append((c.get('priority', 3), 'simple', (a['link'], a['attr']), action_value(a)))
        new = {}
        best = {}
        for pr, kind, tg, val in acts:
            if tg in best and best[tg][0] == pr and best[tg][1] == kind and best[tg][2] != val:
                ties.add((t, tg))
            if tg in best and best[tg][1] != kind and best[tg][2] != val:
                ties.add((t, tg))       # a rule and a simple control meet: the statement does not order the two kinds
            new[tg] = val
            best[tg] = (pr, kind, val)
        ch = {}
        for tg, val in new.items():
            if state[tg] != val:
                state[tg] = val
                ch[tg] = val
        if ch:
            changes.append((t, ch))
    return initial, changes, ties


def timeline_value(initial, changes, target, t):
    v = initial[target]
    for tc, ch in changes:
        if tc > t:
            break
        if target in ch:
            v = ch[target]
    return v
