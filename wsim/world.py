"""Scenario ("world") schema and the builder  scenario dict -> WaterNetworkModel.

A scenario is a JSON-able dict; it is also the replay file.  The builder only uses the
public WNTR API.  All numbers are SI.  See DESIGN.md section 3.2.
"""
import copy
import json

REL_TEXT = {'=': '=', '>=': '>=', '<=': '<=', '>': '>', '<': '<'}


def canon(scn):
    return json.dumps(scn, sort_keys=True, separators=(',', ':'))


def clone(scn):
    return copy.deepcopy(scn)


# ---------------------------------------------------------------------------------------------
# builder
# ---------------------------------------------------------------------------------------------

def _cond(wn, c):
    from wntr.network import controls as ct
    t = c['t']
    if t == 'simtime':
        if c.get('repeat'):
            return ct.SimTimeCondition(wn, c['rel'], float(c['thr']), repeat=int(c['repeat']))
        return ct.SimTimeCondition(wn, c['rel'], float(c['thr']))
    if t == 'clock':
        if c.get('once') or c.get('first_day'):
            return ct.TimeOfDayCondition(wn, c['rel'], float(c['thr']), repeat=not c.get('once'), first_day=int(c.get('first_day', 0)))
        return ct.TimeOfDayCondition(wn, c['rel'], float(c['thr']))
    if t == 'level':
        return ct.ValueCondition(wn.get_node(c['tank']), c.get('attr', 'level'), c['rel'], float(c['thr']))
    if t == 'pressure':
        return ct.ValueCondition(wn.get_node(c['node']), 'pressure', c['rel'], float(c['thr']))
    if t == 'and':
        return ct.AndCondition(_cond(wn, c['a']), _cond(wn, c['b']))
    if t == 'or':
        return ct.OrCondition(_cond(wn, c['a']), _cond(wn, c['b']))
    raise ValueError('unknown condition ' + repr(c))


def _status(s):
    from wntr.network.base import LinkStatus
    return {'OPEN': LinkStatus.Open, 'CLOSED': LinkStatus.Closed, 'ACTIVE': LinkStatus.Active}[s]


def _action(wn, a):
    from wntr.network import controls as ct
    link = wn.get_link(a['link'])
    if a['attr'] == 'status':
        return ct.ControlAction(link, 'status', _status(a['value']))
    if a['attr'] == 'setting':
        return ct.ControlAction(link, 'setting', float(a['value']))
    if a['attr'] == 'base_speed':
        return ct.ControlAction(link, 'base_speed', float(a['value']))
    raise ValueError('unknown action ' + repr(a))


def build(scn, with_faults=True):
    """Build a WaterNetworkModel from a scenario."""
    import wntr
    from wntr.network import controls as ct
    wn = wntr.network.WaterNetworkModel()
    o = scn['options']
    t = wn.options.time
    t.duration = o['duration']
    t.hydraulic_timestep = o['hyd_step']
    t.pattern_timestep = o.get('pattern_step', 3600)
    rs = o.get('report_step', o['hyd_step'])
    t.report_timestep = rs
    t.rule_timestep = o.get('rule_step', 360)
    t.start_clocktime = o.get('start_clocktime', 0)
    t.pattern_start = o.get('pattern_start', 0)
    h = wn.options.hydraulic
    h.demand_model = o.get('demand_model', 'DD')
    h.demand_multiplier = o.get('multiplier', 1.0)
    if 'pmin' in o:
        h.minimum_pressure = o['pmin']
    if 'preq' in o:
        h.required_pressure = o['preq']
    if 'pexp' in o:
        h.pressure_exponent = o['pexp']
    if 'trials' in o:
        h.trials = o['trials']
    if 'accuracy' in o:
        h.accuracy = o['accuracy']
    if 'headerror' in o:
        h.headerror = o['headerror']
    if 'flowchange' in o:
        h.flowchange = o['flowchange']
    if 'default_pattern' in o:
        h.pattern = o['default_pattern']

    for k_, name in enumerate(scn.get('patterns', {})):
        if scn.get('pattern_objects') and k_ % 2 == 0:
            # a Pattern object made elsewhere (with time options of its own): added to a model it follows the model's time options
            from wntr.network.elements import Pattern
            step = int(scn['options'].get('pattern_step', 3600))
            wn.add_pattern(name, Pattern(name, multipliers=list(scn['patterns'][name]), time_options=(step * 3, step * 2 + 60)))
        else:
            wn.add_pattern(name, list(scn['patterns'][name]))
    for name, c in scn.get('curves', {}).items():
        wn.add_curve(name, c['type'], [tuple(p) for p in c['points']])

    for i, n in enumerate(scn['nodes']):
        xy = tuple(n.get('xy', (float(i % 4) * 100.0, float(i // 4) * 100.0)))
        if n['type'] == 'J':
            d = n.get('demands', [])
            if d:
                wn.add_junction(n['id'], base_demand=d[0][0], demand_pattern=d[0][1], elevation=n['elev'],
                                coordinates=xy, demand_category=d[0][2])
                j = wn.get_node(n['id'])
                for base, pat, cat in d[1:]:
                    j.add_demand(base, pat, cat)
            else:
                wn.add_junction(n['id'], base_demand=0.0, elevation=n['elev'], coordinates=xy)
            j = wn.get_node(n['id'])
            p = n.get('pdd')
            if p:
                if 'pmin' in p:
                    j.minimum_pressure = p['pmin']
                if 'preq' in p:
                    j.required_pressure = p['preq']
                if 'pexp' in p:
                    j.pressure_exponent = p['pexp']
        elif n['type'] == 'T':
            wn.add_tank(n['id'], elevation=n['elev'], init_level=n['init'], min_level=n['min'],
                        max_level=n['max'], diameter=n['diam'], min_vol=n.get('min_vol', 0.0),
                        vol_curve=n.get('vol_curve'), overflow=n.get('overflow', False), coordinates=xy)
        elif n['type'] == 'R':
            wn.add_reservoir(n['id'], base_head=n['head'], head_pattern=n.get('pattern'), coordinates=xy)
        else:
            raise ValueError('node type ' + repr(n))

    for l in scn['links']:
        if l['type'] == 'pipe':
            wn.add_pipe(l['id'], l['a'], l['b'], length=l['len'], diameter=l['diam'], roughness=l['rough'],
                        minor_loss=l.get('minor', 0.0), initial_status=l.get('status', 'OPEN'),
                        check_valve=bool(l.get('cv', False)))
        elif l['type'] == 'pump':
            if l['kind'] == 'HEAD':
                wn.add_pump(l['id'], l['a'], l['b'], pump_type='HEAD', pump_parameter=l['curve'],
                            speed=l.get('speed', 1.0), pattern=l.get('pattern'),
                            initial_status=l.get('status', 'OPEN'))
            else:
                wn.add_pump(l['id'], l['a'], l['b'], pump_type='POWER', pump_parameter=l['power'],
                            speed=l.get('speed', 1.0), pattern=l.get('pattern'),
                            initial_status=l.get('status', 'OPEN'))
        elif l['type'] == 'valve':
            wn.add_valve(l['id'], l['a'], l['b'], diameter=l['diam'], valve_type=l['vtype'],
                         minor_loss=l.get('minor', 0.0), initial_setting=l['setting'],
                         initial_status=l.get('status', 'ACTIVE'))
        else:
            raise ValueError('link type ' + repr(l))

    for c in scn.get('controls', []):
        cond = _cond(wn, c['cond'])
        then = [_action(wn, a) for a in c['then']]
        if c['kind'] == 'simple':
            ctl = ct.Control(cond, then[0], priority=c.get('priority', 3), name=c['name'])
        else:
            els = [_action(wn, a) for a in c.get('else', [])]
            ctl = ct.Rule(cond, then, els if els else None, priority=c.get('priority', 3), name=c['name'])
            if scn.get('rule_alias'):
                # a rule that carries a name of its own, registered in the model under another key (both are the user's to choose)
                wn.add_control('key_of_' + c['name'], ctl)
                continue
        wn.add_control(c['name'], ctl)

    # a junction's own pressure-dependent-demand parameter changed during the run by a time control on the junction (public API:
    # ControlAction(junction, 'required_pressure' | 'minimum_pressure' | 'pressure_exponent', value))
    for k_, ch in enumerate(scn.get('pdd_changes', [])):
        act = ct.ControlAction(wn.get_node(ch['node']), ch['attr'], float(ch['value']))
        wn.add_control('pddchg%d' % (k_ + 1), ct.Control(ct.SimTimeCondition(wn, '=', float(ch['t'])), act, name='pddchg%d' % (k_ + 1)))

    # a pipe's roughness / minor-loss coefficient changed during the run by a time control on the pipe (ControlAction(pipe, attr, value))
    for k_, ch in enumerate(scn.get('link_changes', [])):
        act = ct.ControlAction(wn.get_link(ch['link']), ch['attr'], float(ch['value']))
        wn.add_control('linkchg%d' % (k_ + 1), ct.Control(ct.SimTimeCondition(wn, '=', float(ch['t'])), act, name='linkchg%d' % (k_ + 1)))

    for lk in scn.get('leaks', []):
        node = wn.get_node(lk['node'])
        node.add_leak(wn, area=lk['area'], discharge_coeff=lk.get('cd', 0.75),
                      start_time=lk.get('start'), end_time=lk.get('end'))
        if lk.get('removed'):
            node.remove_leak(wn)
    return wn


# ---------------------------------------------------------------------------------------------
# helpers on scenarios (no WNTR code): adjacency etc.
# ---------------------------------------------------------------------------------------------

def node_map(scn):
    return {n['id']: n for n in scn['nodes']}


def link_map(scn):
    return {l['id']: l for l in scn['links']}


def adjacency(scn):
    """node id -> list of (link id, +1 if link ends at node (inflow positive) else -1)."""
    adj = {n['id']: [] for n in scn['nodes']}
    for l in scn['links']:
        adj[l['b']].append((l['id'], +1))
        adj[l['a']].append((l['id'], -1))
    return adj


def summary(scn):
    """short human-readable description used in evidence samples"""
    kinds = {}
    for l in scn['links']:
        k = l['type'] if l['type'] == 'pipe' else (l.get('kind') or l.get('vtype'))
        if l['type'] == 'pipe' and l.get('cv'):
            k = 'cvpipe'
        kinds[k] = kinds.get(k, 0) + 1
    nt = {}
    for n in scn['nodes']:
        nt[n['type']] = nt.get(n['type'], 0) + 1
    o = scn['options']
    return {'seed': scn.get('seed'), 'profile': scn.get('profile'), 'nodes': nt, 'links': kinds,
            'controls': [c['name'] + ':' + c['kind'] + ':' + c['cond']['t'] for c in scn.get('controls', [])][:8],
            'leaks': len(scn.get('leaks', [])), 'hyd_step': o['hyd_step'], 'duration': o['duration'],
            'report_step': o.get('report_step'), 'demand_model': o.get('demand_model', 'DD'),
            'faults': scn.get('faults', [])[:6]}
