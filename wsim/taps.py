"""The seams of DESIGN.md section 2: install/uninstall wrappers around module-level names
of the real code, apply the fault plan, record the event log, enforce step caps.

No repository file is edited; every seam is a module global looked up at call time.
"""
import hashlib
import json
import math
import signal


class WsimAbort(Exception):
    """injected 'killed run' fault"""


class WsimStepCap(Exception):
    """bounded-liveness cap exceeded (-> did not terminate)"""


class WsimTimeout(BaseException):
    """per-run wall cap (harness timeout)"""


class VClock(object):
    """Replaces the `time` module as seen by wntr.sim.solvers."""

    def __init__(self):
        self.now = 1000.0
        self.jump_pending = False
        self.calls = 0

    def time(self):
        self.calls += 1
        self.now += 1e-4
        if self.jump_pending and self.calls_in_solve >= 1:
            self.now += 1e7
            self.jump_pending = False
            self.jumped = True
        self.calls_in_solve += 1
        return self.now

    calls_in_solve = 0
    jumped = False


class Recorder(object):
    def __init__(self, scn, plan=None, monitor=None, caps=True):
        self.scn = scn
        self.plan = plan or []          # list of fault dicts
        self.monitor = monitor          # callable(rec, wn, snapshot) at each accepted step
        self.solves = []                # dicts: seq, t, primary/backup, fault, status, iters
        self.steps = []                 # snapshots at accepted steps
        self.events = []                # canonical discrete log
        self.fired = {}                 # fault kind -> count
        self.n_solver_calls = 0
        self.n_primary = 0
        self.n_tank_updates = 0
        self.n_checks = 0
        self.last_primary_failed = False
        self.saved_flag = False
        self.min_time = None            # restart time: sim_time must never fall below
        self.time_violation = None
        self.wn = None
        o = scn['options']
        nctl = len(scn.get('controls', [])) + 2 * len(scn.get('leaks', []))
        nsteps = o['duration'] // min(o['hyd_step'], (o['report_step'] if isinstance(o.get('report_step'), int) else o['hyd_step'])) + 1
        trials = o.get('trials', 200)
        self.cap_solves = int(2 * (nsteps + nctl + 1 + o['duration'] // max(1, o.get('rule_step', 360)) * (1 if any(c['kind'] == 'rule' for c in scn.get('controls', [])) else 0)) * (min(trials, 40) + 2)) if caps else None
        self.cap_aux = None if self.cap_solves is None else 50 * self.cap_solves + 100000

    def fire(self, kind):
        self.fired[kind] = self.fired.get(kind, 0) + 1

    def fault_for(self, seq, backup):
        for f in self.plan:
            if f.get('at_solve') == seq and bool(f.get('backup', False)) == backup:
                return f
        return None

    def digest(self):
        h = hashlib.sha256()
        h.update(json.dumps(self.events, sort_keys=True, separators=(',', ':')).encode())
        return h.hexdigest()[:20]


def _alarm_handler(signum, frame):
    raise WsimTimeout('CPU-time cap')


class Taps(object):
    """context manager: with Taps(rec): sim.run_sim(...)"""

    def __init__(self, rec, wall_cap=60):
        self.rec = rec
        self.wall_cap = wall_cap
        self.saved = []

    def _swap(self, mod, name, new):
        self.saved.append((mod, name, getattr(mod, name)))
        setattr(mod, name, new)

    def __enter__(self):
        import wntr.sim.core as core
        import wntr.sim.hydraulics as hyd
        import wntr.sim.solvers as solvers
        import scipy.sparse as real_sp
        rec = self.rec
        clock = VClock()
        rec.clock = clock

        real_solver_helper = core._solver_helper
        state = {'singular': False}

        def solver_helper(model, solver, solver_options):
            rec.n_solver_calls += 1
            if rec.cap_solves is not None and rec.n_solver_calls > rec.cap_solves:
                raise WsimStepCap('more than %d solves' % rec.cap_solves)
            backup = rec.last_primary_failed and rec.scn['run'].get('backup') is not None
            if not backup:
                rec.n_primary += 1
            seq = rec.n_primary - 1
            wn = rec.wn
            t = float(wn.sim_time) if wn is not None else None
            if rec.min_time is not None and t is not None and t <= rec.min_time and rec.time_violation is None:
                rec.time_violation = (t, rec.min_time)
            f = rec.fault_for(seq, backup)
            opts = solver_options
            kind = f['kind'] if f else None
            state['fired'] = False
            clock.calls_in_solve = 0
            clock.jumped = False
            if kind == 'abort':
                rec.fire('abort')
                rec.events.append(['abort', seq, t])
                raise WsimAbort('abort at solve %d' % seq)
            if kind == 'maxiter':
                opts = dict(solver_options)
                opts['MAXITER'] = 1
            elif kind == 'linesearch':
                opts = dict(solver_options)
                opts['BT_MAXITER'] = 1
            elif kind == 'timelimit':
                clock.jump_pending = True
            elif kind == 'singular':
                # an exactly singular Jacobian for the whole of this solve: the first equation loses its row.  The fault is in the matrix, not
                # in the linear-algebra routine, so whichever routine the solver calls has to cope with it
                real_jac = model.evaluate_jacobian

                def singular_jacobian(x=None):
                    J = real_jac(x).tolil()
                    J[0, :] = 0.0
                    if not state['fired']:
                        rec.fire('solver.singular')
                        state['fired'] = True
                    return J.tocsr()
                model.evaluate_jacobian = singular_jacobian
            try:
                status, msg, iters = real_solver_helper(model, solver, opts)
            finally:
                if kind == 'singular':
                    del model.evaluate_jacobian
            clock.jump_pending = False
            status = int(status)
            rnorm = None
            if status == 1:
                try:
                    import numpy as _np
                    r_ = model.evaluate_residuals()
                    rnorm = float(_np.max(_np.abs(r_))) if len(r_) else 0.0
                except Exception:  # noqa
                    rnorm = None
            rec.last_rnorm = rnorm
            fired = False
            if kind is not None and status == 0:
                fired = True
                if kind in ('maxiter', 'linesearch', 'timelimit'):
                    rec.fire('solver.' + kind)
            if not backup:
                rec.last_primary_failed = (status == 0)
            else:
                rec.last_primary_failed = False
                if status == 1:
                    rec.fire('backup.rescued')
                else:
                    rec.fire('backup.failed')
            rec.solves.append({'seq': seq, 't': t, 'backup': backup, 'fault': kind, 'fired': fired,
                               'status': status, 'msg': str(msg)[:60], 'rnorm': rnorm})
            rec.events.append(['solve', seq, t, int(backup), kind if fired else None, status])
            return status, msg, iters

        real_save = hyd.save_results
        real_prev = hyd.update_network_previous_values
        real_tank = hyd.update_tank_heads
        real_store = hyd.store_results_in_network

        def save_results(wn, node_res, link_res):
            real_save(wn, node_res, link_res)
            rec.saved_flag = True

        def update_network_previous_values(wn):
            if rec.n_solver_calls > 0 or rec.steps:
                snap = snapshot(wn, rec.scn, reported=rec.saved_flag)
                snap['rnorm'] = getattr(rec, 'last_rnorm', None)
                rec.saved_flag = False
                rec.steps.append(snap)
                rec.events.append(['step', snap['t'], snap['reported'], snap['status'], snap['isolated'], snap['leak_on']])
                if rec.monitor is not None:
                    rec.monitor(rec, wn, snap)
            real_prev(wn)

        def update_tank_heads(wn):
            rec.n_tank_updates += 1
            if rec.cap_aux is not None and rec.n_tank_updates > rec.cap_aux:
                raise WsimStepCap('more than %d tank updates' % rec.cap_aux)
            real_tank(wn)

        def store_results_in_network(wn, m):
            real_store(wn, m)

        self._swap(core, '_solver_helper', solver_helper)
        self._swap(solvers, 'time', clock)
        self._swap(hyd, 'save_results', save_results)
        self._swap(hyd, 'update_network_previous_values', update_network_previous_values)
        self._swap(hyd, 'update_tank_heads', update_tank_heads)
        self._swap(hyd, 'store_results_in_network', store_results_in_network)
        if self.wall_cap:
            # the cap is on the CPU time of this process (ITIMER_PROF), not on wall time: a loaded machine must not turn a slow run into a
            # harness error; a run that blocks without using CPU is ended by the runner's wall limit per case
            self._old_handler = signal.signal(signal.SIGPROF, _alarm_handler)
            signal.setitimer(signal.ITIMER_PROF, float(self.wall_cap))
        return rec

    def __exit__(self, et, ev, tb):
        if self.wall_cap:
            signal.setitimer(signal.ITIMER_PROF, 0.0)
            signal.signal(signal.SIGPROF, self._old_handler)
        for mod, name, old in reversed(self.saved):
            setattr(mod, name, old)
        self.saved = []
        return False


def _f(x):
    if x is None:
        return None
    x = float(x)
    return x


def snapshot(wn, scn, reported):
    """state of the live model at an accepted step (values as they would enter the results)"""
    t = float(wn.sim_time)
    nodes = {}
    isolated = []
    leak_on = []
    for n in scn['nodes']:
        obj = wn.get_node(n['id'])
        d = {'head': _f(obj.head), 'demand': _f(obj.demand), 'leak': _f(getattr(obj, 'leak_demand', 0.0) or 0.0)}
        if n['type'] == 'J':
            d['iso'] = bool(obj._is_isolated)
            if d['iso']:
                isolated.append(n['id'])
        if n['type'] in ('J', 'T'):
            d['leak_status'] = bool(obj.leak_status)
            if d['leak_status']:
                leak_on.append(n['id'])
        if n['type'] == 'T':
            d['level'] = _f(obj.level)
        nodes[n['id']] = d
    links = {}
    status = []
    for l in scn['links']:
        obj = wn.get_link(l['id'])
        st = int(obj.status)
        d = {'flow': _f(obj.flow), 'status': st, 'user': int(obj._user_status), 'internal': int(obj._internal_status),
             'iso': bool(obj._is_isolated)}
        if l['type'] == 'valve':
            d['setting'] = _f(obj.setting)
        links[l['id']] = d
        status.append(st)
    return {'t': t, 'reported': bool(reported), 'nodes': nodes, 'links': links,
            'status': status, 'isolated': isolated, 'leak_on': leak_on}
