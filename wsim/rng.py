"""One PRNG per run, derived from (VERIF_SEED, property, tier-independent stream, run index).

Nothing but the scenario generators draws from it.  Logging never does.
"""
import hashlib
import random


def derive(*parts):
    """Stable 64-bit integer from the parts (ints / strings)."""
    h = hashlib.sha256(('\x1f'.join(str(p) for p in parts)).encode()).digest()
    return int.from_bytes(h[:8], 'big')


class Rng(random.Random):
    """random.Random with a few helpers; all helpers draw a fixed number of variates."""

    def chance(self, p):
        return self.random() < p

    def pick(self, seq):
        return seq[int(self.random() * len(seq))]

    def wpick(self, pairs):
        """pairs: [(item, weight), ...]"""
        tot = float(sum(w for _, w in pairs))
        x = self.random() * tot
        acc = 0.0
        for it, w in pairs:
            acc += w
            if x < acc:
                return it
        return pairs[-1][0]

    def uni(self, a, b, nd=6):
        return round(a + (b - a) * self.random(), nd)

    def logu(self, a, b, nd=8):
        import math
        return float('%.*g' % (nd, math.exp(math.log(a) + (math.log(b) - math.log(a)) * self.random())))

    def irange(self, a, b):
        """integer in [a, b] inclusive"""
        return a + int(self.random() * (b - a + 1))


def run_rng(master_seed, prop, index):
    s = derive('wsim', master_seed, prop, index)
    return s, Rng(s)
