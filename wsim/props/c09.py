"""C09 - junctions cut off from all sources are zeroed; connected ones never are."""
from .. import gen, e1, inv
from ..oracles import V
from .c01 import InvProp
from .base import bump


class C09(InvProp):
    id = 'C09'
    rule = ('one case = one generated world with bridges, parallel links (one open + one closed, both closed, toggling), dead-end districts, '
            'initially closed links and a schedule of time/level controls that opens and closes links so that districts disconnect and '
            'reconnect, with pause/persist/restart faults placed while a district is isolated; at every accepted step the set of junctions '
            'flagged isolated is compared with reference BFS reachability over the reported statuses, isolated rows must be exact zeros and '
            'connected junctions must not be zeroed. non-trivial = some step had an isolated junction; distinct = event-log digest')
    assumptions = ['reachability uses the reported link statuses (a link held closed by its check valve, pump rule or tank limit counts as closed, as in the simulator)']

    def make(self, rng, tier):
        cfg = dict(nj=(3, 9), p_parallel=0.6, p_loop=0.5, n_valves=[(0, 5), (1, 2)], p_pump_source=0.15, steps=(4, 14),
                   n_tanks=[(0, 5), (1, 3)], p_res2=0.25)
        scn = gen.gen_world(rng, cfg)
        scn['profile'] = 'c09'
        scn['run']['solver_options'] = {'MAXITER': 500}
        pipes = [l for l in scn['links'] if l['type'] == 'pipe' and not l.get('cv') and l['a'].startswith('J') and l['b'].startswith('J')]
        for l in pipes:
            if rng.chance(0.2):
                l['status'] = 'CLOSED'
        # closing schedules on junction-junction links (incl. valves): status flips at seeded instants
        targets = pipes + [l for l in scn['links'] if l['type'] == 'valve']
        if targets:
            n = rng.irange(1, 5)
            for _ in range(n):
                l = rng.pick(targets)
                t = gen.time_instant(rng, scn)
                scn['controls'].append({'name': 'iso%d' % (len(scn['controls']) + 1), 'kind': 'simple',
                                        'cond': {'t': 'simtime', 'rel': '=', 'thr': t},
                                        'then': [{'link': l['id'], 'attr': 'status', 'value': rng.pick(['OPEN', 'CLOSED', 'CLOSED'])}], 'priority': 3})
        if len(targets) >= 2 and rng.chance(0.3):
            # a swap: at ONE instant one district is reconnected (its closed feed opens) while another link closes
            i1 = rng.irange(0, len(targets) - 1)
            i2 = (i1 + rng.irange(1, len(targets) - 1)) % len(targets)
            l1, l2 = targets[i1], targets[i2]
            if l1['type'] == 'pipe':
                l1['status'] = 'CLOSED'
            t = gen.time_instant(rng, scn)
            for l_, val in ((l1, 'OPEN'), (l2, 'CLOSED')):
                scn['controls'].append({'name': 'iso%d' % (len(scn['controls']) + 1), 'kind': 'simple', 'cond': {'t': 'simtime', 'rel': '=', 'thr': t},
                                        'then': [{'link': l_['id'], 'attr': 'status', 'value': val}], 'priority': 3})
        vs_ = [l_ for l_ in scn['links'] if l_['type'] == 'valve']
        st_ = [c_ for c_ in scn['controls'] if c_['kind'] == 'simple' and c_['then'][0]['attr'] == 'status']
        if vs_ and st_ and rng.chance(0.3):
            # right after a status change, at the same instant, a control that changes something else (a valve setting)
            c0 = rng.pick(st_)
            v_ = rng.pick(vs_)
            scn['controls'].insert(scn['controls'].index(c0) + 1, {'name': 'set%d' % (len(scn['controls']) + 1), 'kind': 'simple', 'cond': dict(c0['cond']),
                                   'then': [{'link': v_['id'], 'attr': 'setting', 'value': round((v_['setting'] if v_['setting'] > 0 else 5.0) * 1.1, 6)}], 'priority': 3})
        if rng.chance(0.25):
            gen.add_level_controls(rng, scn, 1)
        e1.add_faults(rng, scn, p_pause=0.5, p_rescue=0.1)
        if rng.chance(0.15):
            scn['edits'] = e1.gen_edits(rng, scn)
        if rng.chance(0.25):
            gen.add_valve_bypass(rng, scn)    # a valve with a bypass pipe that a time control closes
        return scn

    def attribute_exception(self, scn, out, v):
        # "the simulator still solves the rest of the network": an exception raised by the isolation bookkeeping, or a model left with
        # unequal numbers of equations and unknowns after links were switched, is a violation of C09; anything else belongs to C16
        tb = out.exc_tb or ''
        msg = str(out.exc)
        if 'number of constraints and variables' in msg and inv.undetermined_heads(scn, getattr(out.rec, 'wn', None)):
            return None      # the open C16 finding (a junction whose head is in no equation), not the isolation bookkeeping
        if 'isolated' in tb or 'network_isolation' in tb or 'number of constraints and variables' in msg:
            return V('c09.isolation_raises', '%s@%s' % (type(out.exc).__name__, out.exc_site or ''), (msg + ' | ' + tb)[-700:])
        return None

    def oracle(self, scn, out, c):
        viol = inv.c09(scn, out, out.tables, c)
        if not viol and c.get('c09.steps_with_isolation', 0) > 0:
            # "reconnecting an isolated part restores normal results": normal results balance at every junction (the C01 invariant,
            # evaluated here on worlds whose districts disconnect and reconnect, staged reconnections included)
            c2 = {}
            for x in inv.c01(scn, out.tables, c2, rn=inv.rnorms(out)):
                if x['oracle'] == 'c01.junction_balance':
                    viol.append(V('c09.results_after_isolation_do_not_balance', x['sig'], x['detail']))
            bump(c, 'c09.balance_checked_worlds')
        return viol

    def nontrivial(self, scn, out, c):
        return c.get('c09.steps_with_isolation', 0) > 0


PROP = C09()
