"""C15 - the compiled model evaluator returns true residuals and Jacobian (engine E3: add/remove/set histories on
wntr.sim.aml.Model against the harness AST)."""
import copy
import hashlib
import json
import math
import traceback

from .. import amlsim as A
from ..oracles import V
from .base import Prop, verdict, bump

COMPONENTS = {
    'real': ['wntr.sim.aml expr.py / aml.py from the working tree', 'evaluator.cpp rebuilt from the working tree (RPN stack machine, CSR Jacobian)', 'scipy.sparse'],
    'simulated': ['the add / remove / re-add / set-value history (seeded operation sequence)', 'allocation noise before constraints are registered (evaluator set order)',
                  'values placed exactly on branch bounds'],
    'stub': [],
}

CONSTS = [0.0, 1.0, 2.0, -1.0, 0.5, 1.852, 3.0, 10.667, -2.5, 0.25, 4.0]


def gen_ast(rng, h, depth, allow_ref=True):
    if depth <= 0 or rng.chance(0.25):
        r = rng.random()
        if r < 0.62 and h.v:
            return ['v', rng.pick(sorted(h.v))]
        if r < 0.72 and h.p:
            return ['p', rng.pick(sorted(h.p))]
        if r < 0.80 and h.subs and allow_ref:
            return ['ref', rng.pick(sorted(h.subs))]
        c = rng.pick(CONSTS)
        return ['c', c, 'int'] if (c == int(c) and rng.chance(0.4)) else ['c', c]
    if rng.chance(0.62):
        op = rng.wpick([('+', 4), ('-', 4), ('*', 4), ('/', 2), ('**', 3)])
        if op == '**':
            mode = rng.wpick([('const_exp', 6), ('const_base', 1), ('var_var', 1), ('param_exp', 2 if h.p else 0)])
            if mode == 'param_exp':
                return ['**', gen_ast(rng, h, depth - 1, allow_ref), ['p', rng.pick(sorted(h.p))]]
            if mode == 'const_exp':
                e = rng.pick([2.0, 3.0, 0.5, 1.852, -1.0, 1.0, 0.0, 2.0])
                return ['**', gen_ast(rng, h, depth - 1, allow_ref), ['c', e, 'int'] if (e == int(e) and rng.chance(0.5)) else ['c', e]]
            if mode == 'const_base':
                return ['**', ['c', rng.pick([2.0, 0.5, 1.5])], gen_ast(rng, h, depth - 1, allow_ref)]
            return ['**', gen_ast(rng, h, depth - 1, allow_ref), gen_ast(rng, h, depth - 2, allow_ref)]
        a = gen_ast(rng, h, depth - 1, allow_ref)
        b = gen_ast(rng, h, depth - 1, allow_ref)
        if rng.chance(0.12):
            # folding shapes: x*0, 0*x, x+0, 0+x, x*1, x/1, x-0, 0-x
            z = ['c', rng.pick([0.0, 1.0]), 'int'] if rng.chance(0.5) else ['c', rng.pick([0.0, 1.0])]
            if op == '/' and z[1] == 0.0:
                z = ['c', 1.0]
            return [op, a, z] if (rng.chance(0.5) or op == '/') else [op, z, a]
        return [op, a, b]
    return [rng.pick(A.UNARY), gen_ast(rng, h, depth - 1, allow_ref)]


def gen_history(rng):
    h = A.HModel()
    ops = []

    assigned = {}      # the number last assigned to a variable through Var(...) / Var.value

    def emit(op):
        r = A.h_step(h, op)
        if r != 'skip':
            ops.append(op)
            if op['op'] in ('var', 'setv') and r == 'ok':
                assigned[op['id']] = op['val']
        return r
    nv = rng.irange(2, 6)
    for i in range(nv):
        emit({'op': 'var', 'id': i, 'val': round(rng.uni(0.2, 3.0) if rng.chance(0.7) else rng.uni(-3.0, 3.0), 4)})
    for j in range(rng.irange(0, 3)):
        emit({'op': 'param', 'id': j, 'val': round(rng.uni(0.3, 2.5), 4)})
    n_ops = rng.irange(6, 30)
    names = 0
    guard = 0
    maxdepth = rng.pick([2, 3, 3, 4])
    p_noise = rng.pick([0.0, 0.05, 0.15])
    while len(ops) < n_ops + nv and guard < 40 * n_ops:
        guard += 1
        k = rng.wpick([('con', 8), ('cond', 4), ('sub', 2), ('cdict', 1), ('cdict_add', 1), ('cdict_del', 1), ('del', 4), ('readd', 2), ('setv', 5),
                       ('setp', 3), ('eval', 5), ('loadx', 2.5), ('setv_again', 2.5), ('var', 1), ('dup', 0.5), ('noise', 20 * p_noise), ('on_bound', 2), ('probe_unstructured', 0.5)])
        if k == 'var':
            emit({'op': 'var', 'id': len(h.v), 'val': round(rng.uni(0.2, 3.0), 4)})
        elif k == 'sub':
            emit({'op': 'sub', 'id': len(h.subs), 'ast': gen_ast(rng, h, rng.irange(1, 2), allow_ref=False)})
        elif k == 'con':
            names += 1
            emit({'op': 'con', 'name': 'c%d' % names, 'ast': gen_ast(rng, h, maxdepth)})
        elif k == 'cond':
            names += 1
            nb = rng.irange(1, 4)
            body = ['v', rng.pick(sorted(h.v))] if rng.chance(0.65) else gen_ast(rng, h, 1)
            cuts = sorted(set(round(rng.uni(-2.0, 3.0), 2) for _ in range(nb)))
            branches = []
            style = rng.pick(['ascending_ub', 'windows'])
            for i, t in enumerate(cuts):
                br = {'body': body if rng.chance(0.8) else (['v', rng.pick(sorted(h.v))]), 'expr': gen_ast(rng, h, maxdepth - 1)}
                if style == 'ascending_ub':
                    br['lb'], br['ub'] = None, t
                else:
                    br['lb'], br['ub'] = t, round(t + rng.uni(0.1, 1.5), 2)
                branches.append(br)
            emit({'op': 'cond', 'name': 'c%d' % names, 'branches': branches, 'final': gen_ast(rng, h, maxdepth - 1)})
        elif k == 'cdict':
            names += 1
            items = [['k%d' % i, gen_ast(rng, h, maxdepth - 1)] for i in range(rng.irange(1, 3))]
            emit({'op': 'cdict', 'name': 'd%d' % names, 'items': items, 'pre': rng.irange(0, len(items))})
        elif k == 'cdict_add' and h.dicts:
            d = rng.pick(sorted(h.dicts))
            emit({'op': 'cdict_add', 'name': d, 'key': 'a%d' % guard, 'ast': gen_ast(rng, h, maxdepth - 1)})
        elif k == 'cdict_del' and h.dicts:
            d = rng.pick(sorted(h.dicts))
            if h.dicts[d]:
                emit({'op': 'cdict_del', 'name': d, 'key': rng.pick(sorted(h.dicts[d]))})
        elif k == 'del' and (h.cons or h.dicts):
            pool = sorted(n for n in h.cons if '[' not in n) + sorted(h.dicts)
            if pool:
                emit({'op': 'del', 'name': rng.pick(pool)})
        elif k == 'readd':
            # remove a constraint and add the very same expression again under the same name
            pool = sorted(n for n in h.cons if '[' not in n and not n.startswith('f'))
            if pool:
                n = rng.pick(pool)
                spec = copy.deepcopy(h.cons[n])
                if emit({'op': 'del', 'name': n}) == 'ok':
                    op = {'op': 'con', 'name': n, 'ast': spec['ast']} if spec['kind'] == 'plain' else {'op': 'cond', 'name': n, 'branches': spec['branches'], 'final': spec['final']}
                    emit(op)
        elif k == 'setv' and h.v:
            emit({'op': 'setv', 'id': rng.pick(sorted(h.v)), 'val': round(rng.uni(0.1, 3.0) if rng.chance(0.7) else rng.uni(-3.0, 3.0), 4)})
        elif k == 'loadx' and h.v and h.cons:
            vids = sorted(h.v)
            rng.shuffle(vids)
            emit({'op': 'loadx', 'via': rng.pick(['load', 'residuals']),
                  'vals': [[vid, round(rng.uni(0.1, 3.0) if rng.chance(0.7) else rng.uni(-3.0, 3.0), 4)] for vid in vids[:rng.irange(1, len(vids))]]})
        elif k == 'setv_again' and assigned:
            # back to the number that was last assigned through Var.value (restarting from an initial guess after x moved the variable)
            vid = rng.pick(sorted(assigned))
            emit({'op': 'setv', 'id': vid, 'val': assigned[vid]})
        elif k == 'on_bound':
            # put a variable exactly on a branch bound of a conditional whose body is that variable
            cands = []
            for c in h.cons.values():
                if c['kind'] == 'cond':
                    for br in c['branches']:
                        if br['body'][0] == 'v':
                            for b in (br.get('lb'), br.get('ub')):
                                if b is not None:
                                    cands.append((br['body'][1], b))
            if cands:
                vid, b = rng.pick(cands)
                emit({'op': 'setv', 'id': vid, 'val': b})
        elif k == 'setp' and h.p:
            emit({'op': 'setp', 'id': rng.pick(sorted(h.p)), 'val': round(rng.uni(0.3, 2.5), 4)})
        elif k == 'dup' and h.cons:
            pool = sorted(n for n in h.cons if '[' not in n)
            if pool:
                emit({'op': 'con', 'name': rng.pick(pool), 'ast': ['+', ['v', rng.pick(sorted(h.v))], ['c', 1.0]]})
        elif k == 'noise':
            emit({'op': 'noise', 'n': rng.irange(1, 80)})
        elif k == 'probe_unstructured':
            emit({'op': 'probe_unstructured'})
        elif k == 'eval':
            emit({'op': 'eval', 'mode': rng.pick(['full', 'full', 'jac_first', 'res_first'])})
    emit({'op': 'eval', 'mode': rng.pick(['full', 'jac_first'])})
    return ops


class C15(Prop):
    id = 'C15'
    engine = 'E3'
    components = COMPONENTS
    quick_runs = 10000
    thorough_runs = 120000
    chunk = 32
    shrink_budget = 400
    rule = ('one case = one seeded history of 6-30 operations on a wntr.sim.aml.Model: create Var/Param, define shared sub-expressions, add constraints from seeded '
            'expression trees over + - * / ** abs sign exp log sin cos tan asin acos atan (reflected operators with Python ints/floats, nested powers, folding shapes '
            'x*0 x**1 0+x, shared sub-expressions and shared constants across constraints), conditional constraints with 1-4 inequality branches, ConstraintDicts '
            '(registered before/after attaching, members added and deleted), remove and re-add, duplicate names (must be refused), value changes incl. exactly on a '
            'branch bound, allocation noise; at every evaluation point the model is made square with filler constraints, set_structure() is called and residuals, '
            'Jacobian entries, get_x and the index permutations are compared with the harness AST value and forward-mode derivative. non-trivial = >= 2 evaluation '
            'points with a removal between them or a conditional constraint; distinct = digest of the operation kinds')
    assumptions = ['values are kept inside the domain of definition and >= 1e-3 away from kinks of abs/sign, >= 1e-6 away from branch bounds unless the body is a bare '
                   'variable sitting exactly on the bound (inclusive bounds)',
                   'tolerance: 1e-9 x the largest magnitude met while evaluating the expression (values) and 1e-7 relative + 1e-9 x magnitude (derivatives)']

    def make(self, rng, tier):
        return {'v': 1, 'engine': 'E3', 'ops': gen_history(rng)}

    def focus(self, scn, violation):
        at = violation.get('at')
        if at is None:
            return None
        s = copy.deepcopy(scn)
        s['ops'] = s['ops'][:at + 1]
        if s['ops'][-1]['op'] != 'eval':
            s['ops'].append({'op': 'eval'})
        return s

    def candidates_override(self, scn):
        ops = scn['ops']
        n = len(ops)
        size = max(1, n // 2)
        while size >= 1:
            for i in range(0, n, size):
                s = copy.deepcopy(scn)
                del s['ops'][i:i + size]
                if s['ops']:
                    yield 'drop ops[%d:%d]' % (i, i + size), s
            if size == 1:
                break
            size //= 2
        # simplify expression trees: replace a node by one of its children
        for i, op in enumerate(ops):
            if op['op'] == 'con':
                for sub in _children(op['ast']):
                    s = copy.deepcopy(scn)
                    s['ops'][i]['ast'] = sub
                    yield 'simplify con %d' % i, s
            if op['op'] == 'cond' and len(op['branches']) > 1:
                for j in range(len(op['branches'])):
                    s = copy.deepcopy(scn)
                    del s['ops'][i]['branches'][j]
                    yield 'drop branch %d of %d' % (j, i), s

    def examine(self, scn, tier='quick'):
        c = {}
        viol = []
        h = A.HModel()
        real = A.Real()
        kinds = []
        nfill = [0]
        evals = 0
        removed_between = False
        had_cond = False
        for i, op0 in enumerate(scn['ops']):
            op = copy.deepcopy(op0)
            r = A.h_step(h, op)
            if r == 'skip':
                continue
            kinds.append(op['op'])
            vv = []
            if op['op'] == 'noise':
                from .. import e1
                e1.perturb_evalorder(op['n'])
                bump(c, 'fired.evalorder.perturb')
                continue
            if op['op'] == 'probe_unstructured':
                if h.dirty and real.cons:
                    bump(c, 'fired.get_x_before_set_structure')
                    try:
                        real.m.get_x()
                    except RuntimeError:
                        bump(c, 'c15.structure_exception_raised')
                    except Exception as e:  # noqa
                        vv.append(V('c15.unstructured_access', type(e).__name__, 'get_x() before set_structure(): %r' % (e,)))
                continue
            if r == 'dup':
                bump(c, 'fired.duplicate_name')
                try:
                    real.step(op)
                    vv.append(V('c15.duplicate_not_refused', op['op'], 'a second %s named %s was accepted' % (op['op'], op['name'])))
                except ValueError:
                    pass
                except Exception as e:  # noqa
                    vv.append(V('c15.duplicate_raises_other', type(e).__name__, repr(e)))
            elif op['op'] == 'eval':
                evals += 1
                vv = self.evaluate(h, real, c, nfill, mode=op.get('mode', 'full'))
                h.dirty = False
            else:
                if op['op'] in ('del', 'cdict_del'):
                    removed_between = True
                if op['op'] == 'cond':
                    had_cond = True
                bump(c, 'ops.' + op['op'])
                try:
                    real.step(op)
                except Exception as e:  # noqa
                    vv.append(V('c15.build_raises', '%s:%s' % (op['op'], type(e).__name__), '%s: %s' % (json.dumps(op0)[:300], traceback.format_exc()[-600:])))
            for x in vv:
                x['at'] = i
            viol += vv
            if viol:
                break
        dig = hashlib.sha256(json.dumps(kinds).encode()).hexdigest()[:20]
        grams = sorted(set('>'.join(kinds[j:j + 3]) for j in range(max(0, len(kinds) - 2))))
        nt = evals >= 2 and (removed_between or had_cond)
        return verdict('violation' if viol else 'ok', viol, c, dig, nontrivial=nt, runs=1, ngrams=grams,
                       sample={'ops': len(kinds), 'first_ops': kinds[:14], 'constraints': len(h.cons), 'vars': len(h.v)})

    def evaluate(self, h, real, c, nfill, mode='full'):
        """mode: 'full' = set_structure, get_x, residuals, Jacobian;  'jac_first' / 'res_first' = when nothing structural changed
        since the last set_structure, only values: evaluate the Jacobian (the residuals) directly, the other one afterwards -
        the documented contract needs set_structure only after structural changes"""
        viol = []
        was_dirty = h.dirty
        # ---- make the model square with filler constraints (they are ordinary constraints from now on)
        live = h.live_vars()
        nc = len(h.cons)
        while len(live) > nc:
            nfill[0] += 1
            vid = sorted(live)[nfill[0] % len(live)]
            op = {'op': 'con', 'name': 'f%d' % nfill[0], 'ast': ['+', ['*', ['v', vid], ['c', 1.5]], ['c', 0.5]]}
            if A.h_step(h, op) != 'ok':
                return []
            real.step(op)
            nc += 1
        while nc > len(live):
            nfill[0] += 1
            a, b = 10000 + 2 * nfill[0], 10001 + 2 * nfill[0]
            for vid in (a, b):
                op = {'op': 'var', 'id': vid, 'val': 1.0 + 0.25 * (nfill[0] % 5)}
                A.h_step(h, op)
                real.step(op)
            op = {'op': 'con', 'name': 'f%d' % nfill[0], 'ast': ['-', ['v', a], ['*', ['c', 2.0], ['v', b]]]}
            A.h_step(h, op)
            real.step(op)
            live = h.live_vars()
            nc = len(h.cons)
        if nc == 0:
            return []
        m = real.m
        try:
            if h.dirty or was_dirty or mode == 'full':
                m.set_structure()
                x = m.get_x()
                r = m.evaluate_residuals()
                J = m.evaluate_jacobian()
            elif mode == 'jac_first':
                bump(c, 'fired.jacobian_before_residuals_after_value_change')
                J = m.evaluate_jacobian()
                r = m.evaluate_residuals()
                x = m.get_x()
            else:
                bump(c, 'fired.residuals_without_set_structure_after_value_change')
                r = m.evaluate_residuals()
                J = m.evaluate_jacobian()
                x = m.get_x()
        except Exception as e:  # noqa
            return [V('c15.evaluate_raises', type(e).__name__, traceback.format_exc()[-700:])]
        bump(c, 'c15.evaluations')
        n = nc
        real_cons = list(m.cons())
        if len(real_cons) != nc or len(r) != nc:
            return [V('c15.constraint_count', 'count', 'model reports %d constraints (residual vector %d), %d were added and not removed' % (len(real_cons), len(r), nc))]
        vidx = {}
        for vid in sorted(live):
            ix = real.v[vid].index
            vidx[vid] = ix
        if sorted(vidx.values()) != list(range(len(live))) or len(x) != len(live):
            return [V('c15.var_index_permutation', 'index', 'variable indices %r are not a permutation of 0..%d (len x = %d)' % (sorted(vidx.values()), len(live) - 1, len(x)))]
        cidx = {}
        for name in h.cons:
            cidx[name] = real.cons[name].index
        if sorted(cidx.values()) != list(range(nc)):
            return [V('c15.con_index_permutation', 'index', 'constraint indices %r are not a permutation of 0..%d' % (sorted(cidx.values()), nc - 1))]
        for vid, ix in vidx.items():
            if x[ix] != h.v[vid]:
                viol.append(V('c15.get_x', 'value', 'get_x()[%d] = %r but the variable holds %r' % (ix, x[ix], h.v[vid])))
        Jd = J.toarray()
        env = h.env()
        for name, spec in h.cons.items():
            try:
                val, grad, M, refd = A.con_eval(spec, env)
            except A.DomainError:
                bump(c, 'c15.skipped_domain')
                continue
            ci = cidx[name]
            bump(c, 'c15.residual_checks')
            if spec['kind'] == 'cond':
                bump(c, 'c15.conditional_checks')
            tol = 1e-9 * max(1.0, M)
            if not (abs(r[ci] - val) <= tol):
                viol.append(V('c15.residual', spec['kind'], 'constraint %s: evaluator residual %r, expression value %r (|diff| %.3g > %.3g)' % (name, float(r[ci]), val, abs(r[ci] - val), tol)))
            for vid, ix in vidx.items():
                want = grad.get(vid, 0.0)
                got = float(Jd[ci, ix])
                if not (abs(got - want) <= 1e-7 * abs(want) + 1e-9 * max(1.0, M)):
                    viol.append(V('c15.jacobian', spec['kind'], 'constraint %s, variable %d: evaluator d/dv = %r, true partial derivative %r' % (name, vid, got, want)))
                bump(c, 'c15.jacobian_checks')
            if len(viol) > 4:
                break
        return viol


def _children(ast):
    if ast[0] in A.BINARY:
        return [ast[1], ast[2]]
    if ast[0] in A.UNARY:
        return [ast[1]]
    return []


PROP = C15()
