"""C16 - runs terminate with well-formed results and never hide a failed step.
Fault enumeration over solve indices (DESIGN.md section 4, C16)."""
from .. import gen, oracles, runsim, world, taps, inv
from ..oracles import V
from ..rng import Rng, derive
from .base import Prop, verdict, bump, event_kinds, ngrams

KINDS = ['timelimit', 'maxiter', 'singular', 'linesearch']
BACKUPS = ['none', 'rescues', 'fails', 'fsolve', 'krylov']     # fsolve / krylov: scipy.optimize.fsolve / newton_krylov as the (documented) backup solver, run for real


def plan_for(fr):
    plan = [{'kind': fr['kind'], 'at_solve': fr['k'], 'backup': False}]
    if fr['backup'] == 'fails':
        plan.append({'kind': 'timelimit', 'at_solve': fr['k'], 'backup': True})
    return plan


def scn_for(scn, fr):
    s = world.clone(scn)
    s['run']['convergence_error'] = bool(fr['ce'])
    if fr['backup'] == 'fsolve':
        s['run']['backup'] = {'solver': 'fsolve', 'options': {}}
    elif fr['backup'] == 'krylov':
        s['run']['backup'] = {'solver': 'krylov', 'options': {'maxiter': 25, 'f_tol': 1e-6}}
    else:
        s['run']['backup'] = None if fr['backup'] == 'none' else {'options': {'MAXITER': 500}}
    return s


class C16(Prop):
    id = 'C16'
    level = 'fault_enumeration'
    quick_runs = 260
    thorough_runs = 1200
    chunk = 4
    rule = ('one case = one generated world (30 %: a world from the generator of C01/C02/C04-C09; there at most 24 fault points); its fault-free run has K primary solves; every solve index k is hit with a '
            'time-limit fault (always fires; convergence_error=False, no backup) and with seeded samples (quick: 2 per k, '
            'thorough: the full product) of kind{timelimit,maxiter,singular,linesearch} x convergence_error{T,F} x '
            'backup{none,rescues,fails}; plus a trials-exceeded run when the world re-solves, plus two paused-and-continued runs (one paused off the report grid when the report step is a multiple of the hydraulic step) whose parts must each be well-formed. non-trivial = at least one '
            'fault fired at k>0 in a world with a partial step or a re-solve; distinct = canonical event-log digest of the '
            'fault-free run')
    assumptions = ['fault-free non-convergence of a generated world is itself checked for well-formedness, not discarded',
                   'solver faults are injected at the seams wntr.sim.core._solver_helper / wntr.sim.solvers.time / '
                   'model.evaluate_jacobian (a zeroed row for a singular matrix); scipy, SuperLU and the Newton iteration are real']

    def make(self, rng, tier):
        if rng.chance(0.3):
            # a guest world: the generator of another property (leaks, isolation schedules, level/pressure controls, time rules, PDD sweeps,
            # pumps into tanks ...) so that "every network and option set" is not only this profile's idea of a network
            import importlib
            guest = rng.pick(['c01', 'c02', 'c04', 'c05', 'c06', 'c07', 'c08', 'c09'])
            scn = importlib.import_module('wsim.props.' + guest).PROP.make(rng, tier)
            scn['faults'] = []
            scn.pop('edits', None)
            scn['guest_of'] = guest.upper()
            scn['profile'] = 'c16'
            scn['run']['convergence_error'] = False
            scn['run']['backup'] = None
            scn['fault_enum'] = {'mode': 'full' if tier == 'thorough' else 'sample', 'salt': rng.irange(0, 10 ** 9)}
            return scn
        cfg = dict(steps=(3, 9), nj=(2, 6), p_pdd=0.2, n_tanks=[(0, 3), (1, 5), (2, 1)])
        scn = gen.gen_world(rng, cfg)
        scn['profile'] = 'c16'
        scn['run']['solver_options'] = {'MAXITER': 500}
        gen.add_simple_time_controls(rng, scn, rng.irange(0, 3))
        if rng.chance(0.4):
            gen.add_level_controls(rng, scn, rng.irange(1, 2))
        if rng.chance(0.15):
            # a report timestep below the hydraulic timestep: the simulator then steps on the report timestep for this run
            hyd = scn['options']['hyd_step']
            scn['options']['report_step'] = int(rng.pick([hyd // 2, hyd // 3, hyd // 2]))
        scn['fault_enum'] = {'mode': 'full' if tier == 'thorough' else 'sample', 'salt': rng.irange(0, 10 ** 9)}
        return scn

    def focus(self, scn, violation):
        fr = violation.get('faultrun')
        if not fr:
            return None
        s = world.clone(scn)
        s['faultruns'] = [fr]
        s.pop('fault_enum', None)
        return s

    # ------------------------------------------------------------------
    def faultruns(self, scn, K, resolves):
        if 'faultruns' in scn:
            return [f for f in scn['faultruns']]
        fe = scn.get('fault_enum') or {'mode': 'sample', 'salt': 0}
        r = Rng(derive('c16enum', fe['salt']))
        out = []
        ks = list(range(K))
        if K > 24:
            # long guest worlds: 24 fault points (first, last, and seeded ones in between) instead of all K
            ks = sorted(set([0, 1, K - 1] + [r.irange(0, K - 1) for _ in range(21)]))
        for k in ks:
            out.append({'kind': 'timelimit', 'k': k, 'ce': False, 'backup': 'none'})
            if fe['mode'] == 'full':
                for kind in KINDS:
                    for ce in (False, True):
                        for b in BACKUPS:
                            if (kind, ce, b) != ('timelimit', False, 'none'):
                                out.append({'kind': kind, 'k': k, 'ce': ce, 'backup': b})
            else:
                for _ in range(2):
                    out.append({'kind': r.pick(KINDS), 'k': k, 'ce': r.chance(0.4), 'backup': r.pick(BACKUPS)})
        if resolves or fe['mode'] == 'full':
            out.append({'kind': 'trials', 'k': -1, 'ce': False, 'backup': 'none', 'trials': 0})
            out.append({'kind': 'trials', 'k': -1, 'ce': True, 'backup': 'none', 'trials': r.pick([0, 1])})
        return out

    def examine(self, scn, tier='quick'):
        c = {}
        viol = []
        ref = runsim.run_world(scn)
        rec0 = ref.rec
        sim_seconds = 0
        if ref.exc is not None:
            if isinstance(ref.exc, taps.WsimStepCap):
                viol.append(V('terminates', 'stepcap', str(ref.exc)))
            else:
                sig = '%s@%s' % (type(ref.exc).__name__, ref.exc_site)
                und = inv.undetermined_heads(scn, getattr(rec0, 'wn', None))
                if und and 'number of constraints and variables' in str(ref.exc):
                    sig += ':head_in_no_equation'      # the known finding: a junction whose head no equation mentions
                viol.append(V('faultfree.raised', sig, ('junctions whose head is in no equation: %r | ' % (und,) if und else '') + ref.exc_tb[-600:]))
            return verdict('violation', viol, c, rec0.digest(), sample=world.summary(scn))
        if rec0.n_solver_calls > 600:
            return verdict('discard', [], c, rec0.digest(), discard='too_many_solves_for_an_enumeration', sample=world.summary(scn))
        res0 = ref.results
        accepted = [s['t'] for s in rec0.steps]
        sim_seconds += accepted[-1] if accepted else 0
        viol += oracles.tables_wellformed(res0, scn, accepted_times=accepted)
        natural_fail = res0.error_code is not None
        if natural_fail:
            bump(c, 'natural_failure')
            if not any('did not converge' in w or 'Exceeded maximum number of trials' in w for w in ref.warnings):
                viol.append(V('failure.no_warning', 'natural', 'error_code set without warning'))
            if int(res0.error_code) != 0:
                viol.append(V('failure.error_code', 'natural', repr(res0.error_code)))
            out = 'violation' if viol else 'discard'
            return verdict(out, viol, c, rec0.digest(), discard='nonconverged', sim_seconds=sim_seconds,
                           sample=world.summary(scn))
        else:
            if accepted and accepted[-1] + scn['options']['hyd_step'] <= scn['options']['duration']:
                viol.append(V('stops_early', 'faultfree', 'last solved step %r, duration %r' % (accepted[-1], scn['options']['duration'])))
        K = rec0.n_primary
        times_of_solve = [s['t'] for s in rec0.solves if not s['backup']]
        resolves = any(times_of_solve[i] == times_of_solve[i - 1] for i in range(1, K))
        partial = any(t % scn['options']['hyd_step'] != 0 for t in accepted)
        fired_late = False
        nruns = 1
        for fr in self.faultruns(scn, K, resolves):
            s2 = scn_for(scn, fr)
            if fr['kind'] == 'trials':
                s2['options']['trials'] = fr['trials']
                out = runsim.run_world(s2)
                tag = 'trials'
            else:
                if fr['k'] >= K:
                    continue
                out = runsim.run_world(s2, plan=plan_for(fr))
                tag = fr['kind']
            nruns += 1
            v = self.judge(scn, s2, fr, out, ref, times_of_solve, c)
            for x in v:
                x['faultrun'] = fr
            viol += v
            for kname, n in out.rec.fired.items():
                bump(c, 'fired.' + kname, n)
            if out.rec.solves:
                sim_seconds += max(0, out.rec.solves[-1]['t'] or 0)
            if fr['k'] > 0 and any(s['fired'] for s in out.rec.solves):
                fired_late = True
            if viol and 'faultruns' not in scn and len(viol) >= 3:
                break
        # every run_sim call must return well-formed tables - also the calls that continue a paused simulation
        o = scn['options']
        grid = [k * o['hyd_step'] for k in range(1, o['duration'] // o['hyd_step'] + 1) if k * o['hyd_step'] < o['duration']]
        if grid and 'faultruns' not in scn:
            r2 = Rng(derive('c16pause', (scn.get('fault_enum') or {}).get('salt', 0)))
            rs_ = o.get('report_step')
            off = [t for t in grid if isinstance(rs_, int) and t % rs_ != 0]
            picks = ([r2.pick(off)] if off else []) + [r2.pick(grid)]
            for tp in picks[:2]:
                outp = runsim.run_world(scn, pauses=[tp], persist=r2.pick(['none', 'pickle']))
                nruns += 1
                bump(c, 'fired.pause')
                if outp.exc is not None:
                    if isinstance(outp.exc, taps.WsimStepCap):
                        viol.append(V('terminates', 'stepcap.pause', str(outp.exc)))
                    continue
                for i_, part in enumerate(outp.parts):
                    for x in oracles.tables_wellformed(part, scn):
                        x['oracle'] = 'continued.' + x['oracle']
                        x['detail'] = 'part %d of a run paused at %d: %s' % (i_, tp, x['detail'])
                        x['pause'] = tp
                        viol.append(x)
        if resolves:
            bump(c, 'world.resolve')
        if partial:
            bump(c, 'world.partial_step')
        bump(c, 'fault_points', nruns - 1)
        nontrivial = fired_late and (resolves or partial)
        ng = ngrams(event_kinds(rec0, scn))
        return verdict('violation' if viol else 'ok', viol, c, rec0.digest(), nontrivial=nontrivial,
                       sim_seconds=sim_seconds, runs=nruns, ngrams=ng, sample=world.summary(scn))

    # ------------------------------------------------------------------
    def judge(self, scn, s2, fr, out, ref, times_of_solve, c):
        viol = []
        rec = out.rec
        ce = bool(fr['ce'])
        label = fr['kind']
        if out.exc is not None and isinstance(out.exc, taps.WsimStepCap):
            return [V('terminates', 'stepcap.' + label, str(out.exc))]
        if fr['kind'] == 'trials':
            failed = out.exc is not None or (out.results is not None and out.results.error_code is not None)
            if not failed:
                bump(c, 'trials.not_exceeded')
                # nothing exceeded: must equal the reference fully
                viol += oracles.tables_wellformed(out.results, scn, expect_times=list(ref.results.node['head'].index))
                viol += oracles.compare_tables(out.results, ref.results, list(ref.results.node['head'].index), label='trials.ok', keys=oracles.SLACK_KEYS, col_atol=oracles.flow_col_atol(scn, ref.results, list(ref.results.node['head'].index)))
                return viol
            bump(c, 'fired.trials.exceeded')
            if ce:
                if not isinstance(out.exc, RuntimeError):
                    viol.append(V('failure.raise', 'trials', 'convergence_error=True but got %r' % (out.exc,)))
                return viol
            if out.exc is not None:
                return [V('failure.raised_unexpected', 'trials.%s@%s' % (type(out.exc).__name__, out.exc_site), out.exc_tb[-500:])]
            t_fail = rec.solves[-1]['t']
            return viol + self.check_failed_tables(scn, out, ref, t_fail, 'trials')
        k = fr['k']
        mine = [s for s in rec.solves if not s['backup']]
        if out.exc is not None and not (ce and isinstance(out.exc, RuntimeError)):
            # whatever happened inside the solve, run_sim may only leave through RuntimeError, and only with convergence_error=True
            return [V('failure.raised_unexpected', '%s.%s@%s' % (label, type(out.exc).__name__, out.exc_site), (out.exc_tb or '')[-500:])]
        if len(mine) <= k:
            return [V('determinism.solve_count', label, 'faulted run has %d solves, fault at %d' % (len(mine), k))]
        if mine[k]['t'] != times_of_solve[k]:
            return [V('determinism.solve_time', label, 'solve %d at %r vs %r' % (k, mine[k]['t'], times_of_solve[k]))]
        fired = mine[k]['fired']
        rescued = False
        if fired and fr['backup'] != 'none':
            b = [s for s in rec.solves if s['backup'] and s['seq'] == k]
            if not b:
                return [V('backup.not_called', label, 'primary failed at solve %d but backup solver was not called' % k)]
            rescued = b[0]['status'] == 1
        if not fired or rescued:
            bump(c, 'run.unfired' if not fired else 'run.rescued')
            fragile0 = (scn['options'].get('demand_model') == 'PDD' or any(l['type'] in ('pump', 'valve') or l.get('cv') for l in scn['links'])
                        or fr['backup'] in ('fsolve', 'krylov'))
            if (fired and fragile0 and ce and isinstance(out.exc, RuntimeError)
                    and ('did not converge' in str(out.exc) or 'Exceeded maximum number of trials' in str(out.exc))):
                # rescued at the faulted step, then a later step of the run's own (other) trajectory could not be solved and, with
                # convergence_error=True, run_sim said so the documented way
                bump(c, 'rescued.failed_later_on_fragile_world')
                return viol
            if out.exc is not None:
                return [V('rescued.raised', '%s.%s@%s' % (label, type(out.exc).__name__, out.exc_site), out.exc_tb[-500:])]
            full = list(ref.results.node['head'].index)
            # a rescued step was solved from another starting point (or by another method): on worlds whose solution is not unique or is
            # ill-conditioned w.r.t. the residual tolerance (status logic of pumps / valves / check valves, PDD, a power pump's second
            # root) the run may legitimately continue on another trajectory.  The statement asks for well-formed tables and, before the
            # rescued step, the same rows; equality afterwards is checked only where the solution is unique and well-conditioned.
            fragile = (scn['options'].get('demand_model') == 'PDD' or any(l['type'] in ('pump', 'valve') or l.get('cv') for l in scn['links'])
                       or fr['backup'] in ('fsolve', 'krylov'))
            if fired and out.results.error_code is not None and fragile:
                # the run failed naturally later on its own trajectory: it said so; nothing further to compare
                bump(c, 'rescued.failed_later_on_fragile_world')
                if not any(('did not converge' in w) or ('Exceeded maximum number of trials' in w) for w in out.warnings):
                    viol.append(V('failure.no_warning', label, 'error_code set without a warning'))
                return viol + oracles.tables_wellformed(out.results, scn, accepted_times=[s_['t'] for s_ in rec.steps])
            if out.results.error_code is not None:
                viol.append(V('rescued.error_code', label, 'error_code %r although the step was solved' % (out.results.error_code,)))
            if fired and fragile:
                bump(c, 'rescued.values_after_rescue_not_compared')
                viol += oracles.tables_wellformed(out.results, scn, accepted_times=[s_['t'] for s_ in rec.steps])
                before = [t_ for t_ in full if t_ < mine[k]['t']]
                if not viol and before:
                    viol += oracles.compare_tables(out.results, ref.results, before, label='rescued.prefix', keys=oracles.SLACK_KEYS, col_atol=oracles.flow_col_atol(scn, ref.results, before))
                return viol
            viol += oracles.tables_wellformed(out.results, scn, expect_times=full)
            if not viol:
                viol += oracles.compare_tables(out.results, ref.results, full, label='rescued', keys=oracles.SLACK_KEYS,
                                                slack=oracles.solver_slack(scn, ref.tables if hasattr(ref, "tables") and ref.tables is not None else ref.results, full), col_atol=oracles.flow_col_atol(scn, ref.results, full))
            return viol
        # an unrescued failure at solve k
        bump(c, 'run.failed')
        if ce:
            if not isinstance(out.exc, RuntimeError):
                viol.append(V('failure.raise', label, 'convergence_error=True, failed solve %d, got %r' % (k, out.exc if out.exc else 'normal return')))
            return viol
        if out.exc is not None:
            return [V('failure.raised_unexpected', '%s.%s@%s' % (label, type(out.exc).__name__, out.exc_site), out.exc_tb[-500:])]
        return viol + self.check_failed_tables(scn, out, ref, mine[k]['t'], label)

    def check_failed_tables(self, scn, out, ref, t_fail, label):
        viol = []
        res = out.results
        if res.error_code is None or int(res.error_code) != 0:
            viol.append(V('failure.error_code', label, 'error_code=%r after a failed step' % (res.error_code,)))
        if not any(('did not converge' in w) or ('Exceeded maximum number of trials' in w) for w in out.warnings):
            viol.append(V('failure.no_warning', label, 'no warning; got %r' % (out.warnings[:3],)))
        full = [int(t) for t in ref.results.node['head'].index]
        want = [t for t in full if t < t_fail]
        viol += oracles.tables_wellformed(res, scn, expect_times=want)
        if not viol:
            # same trajectory up to the failure: equal up to the evaluator's allocator noise, which an ill-conditioned flow split (parallel pipes,
            # loops of fat pipes) amplifies - flows carry the per-link conditioning slack; velocity (= flow / area) is not compared separately
            viol += oracles.compare_tables(res, ref.results, want, label='prefix', keys=oracles.SLACK_KEYS, col_atol=oracles.flow_col_atol(scn, ref.results, want))
        # the failed run must not have solved anything after the failure
        after = [s for s in out.rec.steps if s['t'] >= t_fail]
        if after:
            viol.append(V('failure.continued', label, 'steps accepted at/after failed time: %r' % ([s['t'] for s in after][:4],)))
        return viol


PROP = C16()
