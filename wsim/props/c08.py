"""C08 - leaks discharge Cd*A*sqrt(2*g*p) only while active and only at positive pressure."""
from .. import gen, e1, inv
from ..oracles import V
from .c01 import InvProp


class C08(InvProp):
    id = 'C08'
    rule = ('one case = one generated world with 1-3 leaks on junctions and tanks (area 1e-6..5e-3 m2, Cd in (0,1], start/end on and off the '
            'hydraulic grid, end<=start, start=0, end>duration, only start / only end, removed before the run), nodes driven to negative '
            'pressure, DD and PDD, leaking junctions cut off from every source and reconnected while the leak window is open, with pause/persist/restart faults inside the leak window; every reported row is checked against the window '
            'reference and the orifice law, and with report ALL the window edges must be solved steps. non-trivial = some row had an active '
            'leak; distinct = event-log digest')
    assumptions = ['orifice-law tolerance = min(1e-6, 20 x reached residual norm) m3/s']

    def make(self, rng, tier):
        cfg = dict(steps=(3, 12), n_tanks=[(0, 2), (1, 4)], p_pdd=0.3, p_report_all=0.6)
        scn = gen.gen_world(rng, cfg)
        scn['profile'] = 'c08'
        scn['run']['solver_options'] = {'MAXITER': 500}
        gen.add_leaks(rng, scn, rng.irange(1, 3), tanks=True)
        if rng.chance(0.25):
            # a high junction: negative pressure under the leak
            js = [n for n in scn['nodes'] if n['type'] == 'J']
            j = rng.pick(js)
            j['elev'] = round(scn['meta']['H0'] + rng.uni(-2.0, 6.0), 2)
            if all(l['node'] != j['id'] for l in scn['leaks']):
                scn['leaks'].append({'node': j['id'], 'area': 1e-3, 'cd': 0.75, 'start': 0, 'end': None, 'removed': False})
        if rng.chance(0.2):
            gen.add_simple_time_controls(rng, scn, 1)
        if rng.chance(0.3):
            # cut a leaking junction off while its leak is (or is not yet) active: close every link at the node at a seeded instant,
            # reopen one of them later
            leaky = [l['node'] for l in scn['leaks'] if l['node'].startswith('J') and not l.get('removed')]
            if leaky:
                j = rng.pick(leaky)
                at = [l for l in scn['links'] if j in (l['a'], l['b'])]
                if at and all(l['type'] == 'pipe' for l in at) and len(at) <= 3:
                    t0 = gen.time_instant(rng, scn)
                    for l in at:
                        scn['controls'].append({'name': 'cut%d' % (len(scn['controls']) + 1), 'kind': 'simple', 'cond': {'t': 'simtime', 'rel': '=', 'thr': t0},
                                                'then': [{'link': l['id'], 'attr': 'status', 'value': 'CLOSED'}], 'priority': 3})
                    if rng.chance(0.6):
                        t1 = min(scn['options']['duration'], t0 + rng.pick([1, 2, 3]) * scn['options']['hyd_step'] + rng.pick([0, 7]))
                        scn['controls'].append({'name': 'cut%d' % (len(scn['controls']) + 1), 'kind': 'simple', 'cond': {'t': 'simtime', 'rel': '=', 'thr': int(t1)},
                                                'then': [{'link': at[0]['id'], 'attr': 'status', 'value': 'OPEN'}], 'priority': 3})
        e1.add_faults(rng, scn, p_pause=0.45, p_rescue=0.1)
        if rng.chance(0.15):
            scn['edits'] = e1.gen_edits(rng, scn)
        return scn

    def oracle(self, scn, out, c):
        viol = inv.c08(scn, out, out.tables, c, rn=inv.rnorms(out))
        if not viol and scn.get('leaks'):
            # "... and it is part of the node's mass balance": the junction / tank balance of C01 with the reported leak demand in it
            c2 = {}
            for x in inv.c01(scn, out.tables, c2, rn=inv.rnorms(out)):
                if x['oracle'] in ('c01.junction_balance', 'c01.source_balance'):
                    viol.append(V('c08.leak_not_in_mass_balance', x['sig'], x['detail']))
        return viol

    def nontrivial(self, scn, out, c):
        return c.get('c08.active_rows', 0) > 0

    def attribute_exception(self, scn, out, v):
        # an exception raised while building/evaluating the leak equations is a violation of C08 (the statement covers
        # leaks on junctions and tanks); anything else belongs to C16
        site = out.exc_site or ''
        tb = out.exc_tb or ''
        tanks = set(n['id'] for n in scn['nodes'] if n['type'] == 'T')
        leaky = [l['node'] for l in scn['leaks'] if not l.get('removed')]
        on_tank = [x for x in leaky if x in tanks]
        # an exception naming a leaking node, or raised from the leak equations, is C08's; anything else belongs to C16
        named = [x for x in leaky if isinstance(out.exc, KeyError) and out.exc.args and out.exc.args[0] == x]
        if named or 'leak' in tb.lower():
            return V('c08.leak_raises', '%s@%s%s' % (type(out.exc).__name__, site, ':tank' if (named and named[0] in tanks) or (on_tank and not named) else ''), tb[-600:])
        return None


PROP = C08()
