"""C03 - WNTRSimulator and EpanetSimulator agree on models both support; the agreement does not depend on the flow-unit
system of the INP file; reading an INP file and simulating it gives what EPANET computes for that file.
The two engines are treated as replicas fed the same seeded schedule; the INP file in one of ten unit systems is the
channel between them (DESIGN.md section 4, C03)."""
import os
import warnings

import numpy as np

from .. import gen, e1, inv, runsim, world
from .. import refmodel as rm
from ..oracles import V
from .base import Prop, verdict, bump, event_kinds, ngrams

UNITS = ['CFS', 'GPM', 'MGD', 'IMGD', 'AFD', 'LPS', 'LPM', 'MLD', 'CMH', 'CMD']


def run_epanet(wn, units, scratch, tag):
    """EPANET 2.2 on the INP file WNTR writes in `units`; -> (results, exception, warnings)"""
    import wntr
    wn.options.hydraulic.inpfile_units = units
    res = None
    exc = None
    with warnings.catch_warnings(record=True) as wl:
        warnings.simplefilter('always', append=True)
        try:
            res = wntr.sim.EpanetSimulator(wn).run_sim(file_prefix=os.path.join(scratch, tag), version=2.2)
        except Exception as e:  # noqa
            exc = e
    return res, exc, [str(w.message) for w in wl]


def tab(res, grp, key):
    return getattr(res, grp)[key]


class C03(Prop):
    id = 'C03'
    quick_runs = 700
    thorough_runs = 20000
    chunk = 8
    rule = ('one case = one generated world in the common feature set (reservoirs, cylindrical and curve tanks, H-W pipes, CV pipes, 1/3-point head pumps, power pumps, '
            'PRV/PSV/FCV/TCV, patterns, time / clock-time / tank-level / pressure controls, time and level rules, DD; report step on the hydraulic grid; EPANET '
            'accuracy 1e-7) run by the WNTRSimulator once and by EPANET 2.2 on the INP file written in 3 seeded (thorough: all 10) flow-unit systems, plus once on '
            'the file re-read by the INP reader. (a) the EPANET runs must agree with each other across unit systems; (b) on healthy worlds WNTR and EPANET must '
            'agree at every report step, status timelines included; (c) the model re-read from the file must give, through EPANET, the results of the file itself. '
            'non-trivial = a healthy world with a tank or pump and a control that acted; distinct = event-log digest of the WNTR run')
    assumptions = ['(a) bounds: heads/pressures 5e-3 m + 4e-4 x head range, flows/demands 5e-4 x largest |q| + 2e-6 m3/s (EPANET itself converts flow units with 4-5 digit constants, e.g. 1.9837 AFD/CFS, 1.2e-4 off), statuses equal except next to a switching point',
                   '(b) bounds: heads/pressures 0.03 m + 1e-3 x head range, tank levels 0.02 m, flows 1 % of the largest |q| + 3e-5 m3/s, demands 0.5 % + 1e-6; a report '
                   'step is skipped (counted) where the status timelines of the two engines differ within one hydraulic step of a control threshold crossing',
                   'healthy-world filter for (b): positive junction pressures in both engines, no junction cut off, no EPANET warning, both converge',
                   'rule timestep divides the hydraulic timestep; pattern and report steps are multiples of the hydraulic step (EPANET otherwise shortens its steps)']

    def make(self, rng, tier):
        hyd = rng.pick([900, 1800, 3600, 3600, 7200])
        cfg = dict(hyd_steps=[hyd], steps=(4, 16), n_tanks=[(0, 3), (1, 5), (2, 1)], p_pdd=0.0, p_clock=0.3, nj=(2, 7), p_loop=0.5,
                   n_valves=[(0, 5), (1, 3)], p_dur_off=0.0, p_pump_source=0.3, p_cv=0.15, pump_points=[(1, 3), (3, 3)], p_report_all=0.0, p_report_mult=0.0,
                   p_pattern_start=0.25, p_multiplier=0.3, p_res2=0.15)
        scn = gen.gen_world(rng, cfg)
        scn['profile'] = 'c03'
        o = scn['options']
        o['pattern_step'] = int(hyd * rng.pick([1, 1, 2]))
        if o.get('pattern_start'):
            o['pattern_start'] = int(o['pattern_step'] * rng.pick([1, 2]))
        divs = [d for d in (1, 2, 3, 4, 6) if hyd % d == 0 and hyd // d >= 60]
        o['rule_step'] = hyd // rng.pick(divs)
        o['accuracy'] = 1e-7
        scn['run']['solver_options'] = {'MAXITER': 500}
        scn['run']['hw_approx'] = 'default'
        kinds = rng.pick([[], ['time'], ['level'], ['time', 'level'], ['rule'], ['time', 'rule']])
        if 'time' in kinds:
            gen.add_simple_time_controls(rng, scn, rng.irange(1, 3), p_clock=0.3, bias='grid')
        if 'level' in kinds:
            gen.add_level_controls(rng, scn, rng.irange(1, 2))
        if 'rule' in kinds:
            gen.add_rules(rng, scn, rng.irange(1, 2), kinds=('time', 'clock', 'level'), p_compound=0.2)
        nu = 3 if tier == 'quick' else 10
        us = list(UNITS)
        rng.shuffle(us)
        scn['units'] = us[:nu]
        return scn

    def examine(self, scn, tier='quick'):
        import wntr
        c = {}
        viol = []
        out = e1.simulate(scn)
        kind, v = e1.classify(out)
        dig = out.rec.digest()
        sims = out.rec.steps[-1]['t'] if out.rec.steps else 0
        if kind in ('stepcap', 'repo_exception'):
            return verdict('discard', [], c, dig, discard='wntr_' + kind, sample=world.summary(scn))
        wntr_ok = kind == 'ok'
        nruns = 1
        ep = {}
        warn = {}
        with runsim.Scratch() as scratch:
            for u in scn['units']:
                wn = world.build(scn)
                res, exc, wl = run_epanet(wn, u, scratch, 'e_' + u)
                nruns += 1
                bump(c, 'c03.epanet_runs.' + u)
                if exc is not None:
                    bump(c, 'c03.epanet_raised.' + type(exc).__name__)
                    return verdict('discard', [], c, dig, discard='epanet_refuses_world', sample=world.summary(scn))
                ep[u] = res
                warn[u] = wl
            # (c) reader: re-read the first file, run EPANET on the re-read model (written again in another unit system)
            u0 = scn['units'][0]
            try:
                wn_r = wntr.network.WaterNetworkModel(os.path.join(scratch, 'e_' + u0 + '.inp'))
            except Exception as e:  # noqa
                viol.append(V('c03.reader_raises', type(e).__name__, 'reading the INP file WNTR wrote in %s: %r' % (u0, e)))
                wn_r = None
            rr = None
            if wn_r is not None:
                u1 = scn['units'][-1]
                rr, exc, wl = run_epanet(wn_r, u1, scratch, 'r_' + u1)
                nruns += 1
                if exc is not None:
                    viol.append(V('c03.reread_model_refused', type(exc).__name__, 'EPANET refuses the model re-read from the %s file and written in %s: %r' % (u0, u1, exc)))
                    rr = None
        ref = ep[scn['units'][0]]
        times = [int(t) for t in ref.node['head'].index]
        # ---------------- EPANET must be inside its modelling domain in every run (else its numbers are noise that depends on the units)
        o = scn['options']
        rs = o['report_step'] if isinstance(o.get('report_step'), int) else o['hyd_step']
        want_rows = o['duration'] // rs + 1
        jun = [n['id'] for n in scn['nodes'] if n['type'] == 'J']
        tnk = [n['id'] for n in scn['nodes'] if n['type'] == 'T']
        allres = list(ep.items()) + ([('reread', rr)] if rr is not None else [])
        for u, res in allres:
            bad = None
            if len(res.node['head'].index) != want_rows:
                bad = 'epanet_stopped_early'
            elif any('warning' in w.lower() or 'negative' in w.lower() or 'unbalanced' in w.lower() or 'disconnected' in w.lower() for w in warn.get(u, [])):
                bad = 'epanet_warning'
            else:
                pe = np.asarray(res.node['pressure'][jun].values, dtype=float)
                if pe.size and (not np.all(np.isfinite(pe)) or pe.min() <= 0.5):
                    bad = 'epanet_low_or_negative_pressure'
            if bad:
                bump(c, 'c03.unhealthy.' + bad)
                return verdict('discard', viol, c, dig, discard=bad, sample=world.summary(scn)) if not viol else verdict('violation', viol, c, dig, sample=world.summary(scn))
        # scales
        heads = np.asarray(ref.node['head'].values, dtype=float)
        flows = np.asarray(ref.link['flowrate'].values, dtype=float)
        if heads.size == 0 or not np.all(np.isfinite(heads)):
            return verdict('discard', [], c, dig, discard='epanet_nonfinite', sample=world.summary(scn))
        hrange = float(heads.max() - heads.min())
        qmax = float(np.abs(flows).max()) if flows.size else 0.0
        # ---------------- (a) unit independence, EPANET vs EPANET
        others = [(u, ep[u]) for u in scn['units'][1:]]
        if rr is not None:
            others.append(('reread:' + scn['units'][-1], rr))
        for u, res in others:
            lab = 'c03.reader' if u.startswith('reread') else 'c03.units'
            t2 = [int(t) for t in res.node['head'].index]
            if t2 != times:
                viol.append(V(lab + '.index', u.split(':')[0], 'report index differs between %s and %s: %r vs %r' % (scn['units'][0], u, times[:8], t2[:8])))
                continue
            bump(c, lab + '.comparisons')
            su = np.asarray(res.link['status'][ref.link['status'].columns].values)
            sr = np.asarray(ref.link['status'].values)
            rows_ok = list(range(len(times)))
            if not np.array_equal(su, sr):
                first = int(np.where((su != sr).any(axis=1))[0][0])
                if self.near_threshold(scn, out, ref, times, first):
                    # the same engine takes the other branch of a status decision when the text precision moves a number
                    # across its threshold: comparable only before that row
                    bump(c, lab + '.skipped_status_knife_edge')
                    rows_ok = list(range(first))
                else:
                    j = int(np.where(su[first] != sr[first])[0][0])
                    viol.append(V(lab + '.status', 'differs', '%s vs %s: status[%s] at t=%d: %r vs %r' % (u, scn['units'][0], ref.link['status'].columns[j], times[first], su[first, j], sr[first, j])))
                    continue
            for grp, key, atol in (('node', 'head', 5e-3 + 4e-4 * hrange), ('node', 'pressure', 5e-3 + 4e-4 * hrange),
                                   ('node', 'demand', 5e-4 * qmax + 2e-6), ('link', 'flowrate', 5e-4 * qmax + 2e-6)):
                cols = list(tab(ref, grp, key).columns) if key != 'pressure' else (jun + tnk)
                a = np.asarray(tab(res, grp, key)[cols].values, dtype=float)[rows_ok]
                b = np.asarray(tab(ref, grp, key)[cols].values, dtype=float)[rows_ok]
                bad = np.where(np.abs(a - b) > atol)
                if len(bad[0]):
                    i, j = int(bad[0][0]), int(bad[1][0])
                    viol.append(V(lab + '.' + key, 'differs', '%s vs %s: %s[%s] at t=%d: %.9g vs %.9g (bound %.3g, %d cells)' %
                                  (u, scn['units'][0], key, cols[j], times[rows_ok[i]], a[i, j], b[i, j], atol, len(bad[0]))))
        # ---------------- (b) engine agreement on healthy worlds
        healthy = wntr_ok
        why = None
        if not wntr_ok:
            why = 'wntr_' + kind
        if healthy:
            pw = np.asarray(out.tables.node['pressure'][jun].values, dtype=float)
            if pw.size and pw.min() <= 0.5:
                healthy, why = False, 'wntr_low_or_negative_pressure'
        if healthy and any(s['isolated'] for s in out.rec.steps):
            healthy, why = False, 'isolated_junctions'
        tw = inv.rows(out.tables) if out.tables is not None else []
        if healthy and tw != times:
            viol.append(V('c03.engines.index', 'index', 'report index: WNTR %r, EPANET %r' % (tw[:10], times[:10])))
            healthy, why = False, 'index'
        if not healthy:
            bump(c, 'c03.unhealthy.' + str(why))
        else:
            bump(c, 'c03.engine_comparisons')
            # status timelines; steps at which they differ next to a threshold crossing are skipped and counted
            sw = np.asarray(out.tables.link['status'][ref.link['status'].columns].values, dtype=float)
            se = np.asarray(ref.link['status'].values, dtype=float)
            # EPANET reports active valves as 2.., WNTR as Active=2; compare open/closed only for pumps and pipes, exact for valves when both are in {0,1,2}
            row_bad = np.where((sw != se).any(axis=1))[0]
            skip = set(int(i) for i in row_bad)
            if len(row_bad):
                bump(c, 'c03.status_rows_differ', len(row_bad))
            tanks = [n['id'] for n in scn['nodes'] if n['type'] == 'T']
            lvl_scale = 1.0
            checks = (('node', 'head', 0.03 + 1e-3 * hrange), ('node', 'pressure', 0.03 + 1e-3 * hrange),
                      ('node', 'demand', 5e-3 * qmax + 1e-6), ('link', 'flowrate', 1e-2 * qmax + 3e-5))
            ok_rows = [i for i in range(len(times)) if i not in skip]
            # a status difference persists until the engines meet again: compare only the rows before the first difference
            if skip:
                first = min(skip)
                ok_rows = [i for i in ok_rows if i < first]
            for grp, key, atol in checks:
                cols = list(tab(ref, grp, key).columns) if key != 'pressure' else (jun + tnk)
                A_ = np.asarray(tab(out.tables, grp, key)[cols].values, dtype=float)
                B_ = np.asarray(tab(ref, grp, key)[cols].values, dtype=float)
                if not ok_rows:
                    break
                a = A_[ok_rows]
                b = B_[ok_rows]
                bad = np.where(np.abs(a - b) > atol + 1e-3 * np.abs(b))
                if len(bad[0]):
                    i, j = int(bad[0][0]), int(bad[1][0])
                    viol.append(V('c03.engines.' + key, 'differs', 'WNTR vs EPANET: %s[%s] at t=%d: %.9g vs %.9g (bound %.3g, %d cells)' %
                                  (key, cols[j], times[ok_rows[i]], a[i, j], b[i, j], atol, len(bad[0]))))
            if skip and min(skip) > 0:
                # the status timelines differ from row `first` on: a violation only if no control threshold is near (both engines
                # resolve a crossing within the same hydraulic step, so a difference must be explained by a crossing in that step)
                first = min(skip)
                near = self.near_threshold(scn, out, ref, times, first)
                if near:
                    bump(c, 'c03.skipped_status_near_threshold')
                else:
                    j = int(np.where(sw[first] != se[first])[0][0])
                    viol.append(V('c03.engines.status', 'differs', 'WNTR vs EPANET: status[%s] at t=%d: %r vs %r and no control threshold is crossed around that step' %
                                  (ref.link['status'].columns[j], times[first], sw[first, j], se[first, j])))
        acted = any(s['status'] != out.rec.steps[0]['status'] for s in out.rec.steps[1:]) if out.rec.steps else False
        rich = any(n['type'] == 'T' for n in scn['nodes']) or any(l['type'] == 'pump' for l in scn['links'])
        return verdict('violation' if viol else 'ok', viol, c, dig, nontrivial=bool(healthy and acted and rich), sim_seconds=sims * nruns, runs=nruns,
                       ngrams=ngrams(event_kinds(out.rec, scn)), sample=world.summary(scn))

    def near_threshold(self, scn, out, ref, times, row):
        """is some level/pressure control threshold, tank limit or valve/pump/check-valve switching point within reach at this row?
        (generous: any conditional control, tank, check valve, pump or PRV/PSV/FCV in the world makes a status difference explainable)"""
        if any(c['cond']['t'] in ('level', 'pressure', 'and', 'or') for c in scn['controls']):
            return True
        if any(n['type'] == 'T' for n in scn['nodes']):
            return True
        if any(l['type'] in ('pump', 'valve') or l.get('cv') for l in scn['links']):
            return True
        return False


PROP = C03()
