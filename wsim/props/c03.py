"""C03 - WNTRSimulator and EpanetSimulator agree on models both support; the agreement does not depend on the flow-unit
system of the INP file; reading an INP file and simulating it gives what EPANET computes for that file.
The two engines are treated as replicas fed the same seeded schedule; the INP file in one of ten unit systems is the
channel between them (DESIGN.md section 4, C03)."""
import os
import warnings

import numpy as np

from .. import gen, e1, inv, runsim, world
from .. import refmodel as rm
from ..oracles import V
from .base import Prop, verdict, bump, event_kinds, ngrams

UNITS = ['CFS', 'GPM', 'MGD', 'IMGD', 'AFD', 'LPS', 'LPM', 'MLD', 'CMH', 'CMD']


def run_epanet(wn, units, scratch, tag):
    """EPANET 2.2 on the INP file WNTR writes in `units`; -> (results, exception, warnings)"""
    import wntr
    wn.options.hydraulic.inpfile_units = units
    res = None
    exc = None
    with warnings.catch_warnings(record=True) as wl:
        warnings.simplefilter('always', append=True)
        try:
            res = wntr.sim.EpanetSimulator(wn).run_sim(file_prefix=os.path.join(scratch, tag), version=2.2)
        except Exception as e:  # noqa
            exc = e
    return res, exc, [str(w.message) for w in wl]


def relayout_demands(src, dst):
    """copy the INP file with the data lines of [DEMANDS] stably sorted by demand category (last column); True if that changed the order"""
    with open(src, 'rb') as fh:
        lines = fh.read().decode('latin-1').split('\n')
    try:
        i0 = next(i for i, ln in enumerate(lines) if ln.strip().upper().startswith('[DEMANDS]'))
    except StopIteration:
        return False
    i1 = next((i for i in range(i0 + 1, len(lines)) if lines[i].strip().startswith('[')), len(lines))
    head = [ln for ln in lines[i0 + 1:i1] if not ln.strip() or ln.strip().startswith(';')]
    data = [ln for ln in lines[i0 + 1:i1] if ln.strip() and not ln.strip().startswith(';')]
    if len(data) < 3:
        return False
    def cat(ln):
        return ln.split(';', 1)[1].strip() if ';' in ln else ''
    new = sorted(data, key=cat)
    if new == data:
        new = data[::2] + data[1::2]      # interleave: first the odd lines, then the even ones
        if new == data:
            return False
    out = lines[:i0 + 1] + [ln for ln in head if ln.strip()] + new + [''] + lines[i1:]
    with open(dst, 'wb') as fh:
        fh.write('\n'.join(out).encode('latin-1'))
    return True


def tab(res, grp, key):
    return getattr(res, grp)[key]


def _conds(cnd, out):
    if cnd['t'] in ('and', 'or'):
        _conds(cnd['a'], out)
        _conds(cnd['b'], out)
    elif cnd['t'] in ('level', 'pressure'):
        out.append(cnd)
    return out


def comparable_rows(scn, runs, ntimes):
    """number of leading report rows on which runs of the same schedule are comparable: rows before any run comes near a switching
    point whose exact instant legitimately depends on the last digits (a level/pressure control threshold, a tank level limit, an
    internal status change of a pump, valve or check valve).  Both engines resolve such an instant to the second, and everything
    after it depends on which second it was."""
    limit = ntimes
    conds = []
    for ctl in scn['controls']:
        _conds(ctl['cond'], conds)
    timed = set(a['link'] for ctl in scn['controls'] if ctl['cond']['t'] in ('simtime', 'clock') for a in ctl['then'] + ctl.get('else', []))
    internal = [l['id'] for l in scn['links'] if (l['type'] in ('pump', 'valve') or l.get('cv')) and l['id'] not in timed]
    for res in runs:
        for cnd in conds:
            if cnd['t'] == 'level':
                x = np.asarray(res.node['head' if cnd.get('attr') == 'head' else 'pressure'][cnd['tank']].values, dtype=float)
            else:
                x = np.asarray(res.node['pressure'][cnd['node']].values, dtype=float)
            if not len(x):
                continue
            thr = float(cnd['thr'])
            band = 0.03 + 0.01 * abs(x[0] - thr)
            s0 = np.sign(x[0] - thr)
            near = np.where((np.abs(x - thr) < band) | (np.sign(x - thr) != s0))[0]
            if len(near):
                limit = min(limit, int(near[0]))
        for tk_ in [n for n in scn['nodes'] if n['type'] == 'T']:
            lv = np.asarray(res.node['pressure'][tk_['id']].values, dtype=float)
            band = 0.02 * (tk_['max'] - tk_['min']) + 0.01
            hit = np.where((lv <= tk_['min'] + band) | (lv >= tk_['max'] - band))[0]
            if len(hit):
                limit = min(limit, int(hit[0]))
        if internal:
            st = np.asarray(res.link['status'][internal].values, dtype=float)
            if len(st):
                ch = np.where((st != st[0]).any(axis=1))[0]
                if len(ch):
                    limit = min(limit, int(ch[0]))
    return limit


class C03(Prop):
    id = 'C03'
    quick_runs = 3000
    thorough_runs = 15000
    chunk = 8
    rule = ('one case = one generated world in the common feature set (reservoirs, cylindrical and curve tanks, H-W pipes, CV pipes, 1/3-point head pumps, power pumps, '
            'PRV/PSV/FCV/TCV, patterns, time / clock-time / tank-level / pressure controls, time and level rules, DD and PDD with global parameters; report step on the hydraulic grid; EPANET '
            'accuracy 1e-7) run by the WNTRSimulator once and by EPANET 2.2 on the INP file written in 3 seeded (thorough: all 10) flow-unit systems, plus once on '
            'the file re-read by the INP reader. (a) the EPANET runs must agree with each other across unit systems; (b) on healthy worlds WNTR and EPANET must '
            'agree at every report step, status timelines included; (c) the model re-read from the file must give, through EPANET, the results of the file itself. '
            'non-trivial = a healthy world with a tank or pump and a control that acted; distinct = event-log digest of the WNTR run')
    assumptions = ['(a) bounds: heads/pressures 5e-3 m + 6e-4 x head range, flows/demands 1.5e-3 x largest |q| + 2e-6 m3/s (EPANET itself converts flow units with 4-5 digit constants, e.g. 1.9837 AFD/CFS, 1.2e-4 off), statuses equal except next to a switching point',
                   '(b) bounds: heads/pressures 0.03 m + 1e-3 x head range, tank levels 0.02 m, flows 1 % of the largest |q| + 3e-5 m3/s, demands 0.5 % + 1e-6; a report '
                   'step is skipped (counted) where the status timelines of the two engines differ within one hydraulic step of a control threshold crossing',
                   'healthy-world filter for (b): positive junction pressures in both engines, no junction cut off, no EPANET warning, both converge',
                   'rule timestep divides the hydraulic timestep; pattern and report steps are multiples of the hydraulic step (EPANET otherwise shortens its steps)']

    def prv_zone(self, rng, tier):
        """a pressure zone behind a PRV whose two ends lie at different elevations, with a tank in the zone that starts above the set head: the
        tank pushes back and the valve closes; the zone's demand drains the tank below the set head and the valve has to regulate again.  The
        supply head lies between (setting + downstream elevation) and (setting + upstream elevation), well clear of both."""
        hyd = rng.pick([1800, 3600])
        nsteps = rng.irange(8, 14)
        e2 = rng.uni(2.0, 20.0, 2)
        delta = rng.uni(8.0, 20.0, 2)
        e1 = round(e2 + (delta if rng.chance(0.7) else -delta), 2)
        sett = rng.uni(25.0, 45.0, 2)
        hs = e2 + sett
        h0 = round(hs + rng.uni(0.3, 0.7) * abs(delta) + (0.0 if e1 > e2 else 3.0), 2) if e1 > e2 else round(hs + rng.uni(3.0, 8.0), 2)
        d2 = rng.uni(0.008, 0.02, 6)
        diam = rng.pick([8.0, 10.0, 12.0])
        lvl0 = rng.uni(1.5, 3.0, 2)
        et = round(hs + rng.uni(0.4, 1.2) - lvl0, 2)      # tank head starts 0.4-1.2 m above the set head
        scn = {'v': 1, 'profile': 'c03', 'patterns': {'P1': [1.0, 1.2, 0.9, 1.1]}, 'curves': {}, 'controls': [], 'leaks': [], 'faults': [],
               'options': {'duration': int(hyd * nsteps), 'hyd_step': int(hyd), 'pattern_step': int(hyd * 2), 'report_step': int(hyd), 'rule_step': int(hyd),
                           'start_clocktime': 0, 'pattern_start': 0, 'multiplier': 1.0, 'demand_model': 'DD', 'trials': 200,
                           'accuracy': 1e-7, 'headerror': 1e-5, 'flowchange': 1e-7},
               'nodes': [{'id': 'R1', 'type': 'R', 'head': h0, 'pattern': None},
                         {'id': 'J1', 'type': 'J', 'elev': e1, 'demands': [[rng.uni(0.0005, 0.002, 6), None, None]]},
                         {'id': 'J2', 'type': 'J', 'elev': e2, 'demands': [[d2, 'P1', None]]},
                         {'id': 'T1', 'type': 'T', 'elev': et, 'init': lvl0, 'min': 0.0, 'max': round(lvl0 + 2.0, 2), 'diam': diam, 'overflow': False, 'vol_curve': None}],
               'links': [{'id': 'p1', 'type': 'pipe', 'a': 'R1', 'b': 'J1', 'len': 100.0, 'diam': 0.5, 'rough': 130.0, 'minor': 0.0, 'status': 'OPEN', 'cv': False},
                         {'id': 'v2', 'type': 'valve', 'a': 'J1', 'b': 'J2', 'vtype': 'PRV', 'diam': 0.3, 'minor': 0.0, 'status': 'ACTIVE', 'setting': sett},
                         {'id': 'p3', 'type': 'pipe', 'a': 'J2', 'b': 'T1', 'len': 150.0, 'diam': 0.4, 'rough': 130.0, 'minor': 0.0, 'status': 'OPEN', 'cv': False}],
               'meta': {'H0': h0, 'total_demand': d2 * 1.3}, 'run': {'backup': None, 'convergence_error': False, 'hw_approx': 'default', 'solver_options': {'MAXITER': 500}}}
        us = list(UNITS)
        rng.shuffle(us)
        scn['units'] = us[:3 if tier == 'quick' else 10]
        scn['zone'] = 'prv'
        return scn

    def make(self, rng, tier):
        if rng.chance(0.06):
            return self.prv_zone(rng, tier)
        hyd = rng.pick([900, 1800, 3600, 3600, 7200])
        cfg = dict(hyd_steps=[hyd], steps=(4, 16), n_tanks=[(0, 3), (1, 5), (2, 1)], p_pdd=0.3, p_clock=0.3, nj=(2, 7), p_loop=0.5,
                   n_valves=[(0, 5), (1, 3)], p_dur_off=0.0, p_pump_source=0.3, p_cv=0.15, pump_points=[(1, 3), (3, 3)], p_report_all=0.0, p_report_mult=0.0,
                   p_pattern_start=0.25, p_multiplier=0.3, p_res2=0.15)
        scn = gen.gen_world(rng, cfg)
        scn['profile'] = 'c03'
        for n_ in scn['nodes']:
            n_.pop('pdd', None)      # per-junction PDD parameters are WNTR-only (the INP format has global ones)
        o = scn['options']
        o['pattern_step'] = int(hyd * rng.pick([1, 1, 2]))
        if o.get('pattern_start'):
            o['pattern_start'] = int(o['pattern_step'] * rng.pick([1, 2]))
        divs = [d for d in (1, 2, 3, 4, 6) if hyd % d == 0 and hyd // d >= 60]
        o['rule_step'] = hyd // rng.pick(divs)
        o['accuracy'] = 1e-7
        o['headerror'] = 1e-5      # EPANET 2.2 convergence criteria on head error (m) and flow change (m3/s): with the relative-flow
        o['flowchange'] = 1e-7     # criterion alone its PDA solutions differ by decimetres between runs of one model (world 3607)
        scn['run']['solver_options'] = {'MAXITER': 500}
        scn['run']['hw_approx'] = 'default'
        kinds = rng.pick([[], ['time'], ['level'], ['time', 'level'], ['rule'], ['time', 'rule']])
        if any(n['type'] == 'T' for n in scn['nodes']):
            # EPANET also evaluates rules at the end of every partial hydraulic step (tank full/empty, level control reached), the
            # statement and WNTR only on the rule grid: worlds with tanks get no rules (observed: world 534 of seed 20260928)
            kinds = [k for k in kinds if k != 'rule']
        if 'time' in kinds:
            gen.add_simple_time_controls(rng, scn, rng.irange(1, 3), p_clock=0.3, bias='grid')
        if 'level' in kinds:
            gen.add_level_controls(rng, scn, rng.irange(1, 2))
        if 'rule' in kinds:
            gen.add_rules(rng, scn, rng.irange(1, 2), kinds=('time', 'clock', 'level'), p_compound=0.2)
        # EPANET truncates a rule's clock/time threshold to whole seconds after computing it in decimal hours (2:10:00 AM becomes
        # 7799 s), so an inequality evaluated exactly on its threshold is a knife edge of the reference engine: keep them 7 s apart
        def off_edge(cnd):
            if cnd['t'] in ('and', 'or'):
                off_edge(cnd['a'])
                off_edge(cnd['b'])
            elif cnd['t'] in ('simtime', 'clock') and cnd['rel'] != '=':
                cnd['thr'] = int(cnd['thr'] + 7) % (86400 if cnd['t'] == 'clock' else 10 ** 9)
        for ctl in scn['controls']:
            if ctl['kind'] == 'rule':
                off_edge(ctl['cond'])
        # equal priorities on one target are not ordered by the statement (EPANET: the first rule wins, WNTR: the last)
        rules = [ctl for ctl in scn['controls'] if ctl['kind'] == 'rule']
        pr = [6, 5, 4, 3, 2, 1, 0]
        rng.shuffle(pr)
        for ctl, p_ in zip(rules, pr):
            ctl['priority'] = p_
        if len(rules) > 7:
            scn['controls'] = [ctl for ctl in scn['controls'] if ctl['kind'] != 'rule'] + rules[:7]
        # a rule and a simple control due at the same instant on the same link: both engines let the simple control have the last word
        # (EPANET evaluates rules while it advances the clock and applies simple controls when the next solution starts)
        if 'rule' in kinds and rng.chance(0.35):
            pp = gen.plain_pipes(scn)
            if pp:
                l = rng.pick(pp)
                k = rng.irange(1, max(1, o['duration'] // hyd - 1))
                t = int(k * hyd)
                val = rng.pick(['OPEN', 'CLOSED'])
                scn['controls'].append({'name': 'clash_c', 'kind': 'simple', 'cond': {'t': 'simtime', 'rel': '=', 'thr': t},
                                        'then': [{'link': l['id'], 'attr': 'status', 'value': val}], 'priority': 3})
                scn['controls'].append({'name': 'clash_r', 'kind': 'rule', 'cond': {'t': 'simtime', 'rel': '=', 'thr': t},
                                        'then': [{'link': l['id'], 'attr': 'status', 'value': 'OPEN' if val == 'CLOSED' else 'CLOSED'}], 'else': [],
                                        'priority': rng.pick([1, 5])})
        # a twin of a plain pipe drawn the other way round, and a window in which one of the pair is closed: the other still carries the water
        if rng.chance(0.15):
            tids = set(n_['id'] for n_ in scn['nodes'] if n_['type'] == 'T')
            pp = [l_ for l_ in gen.plain_pipes(scn, away_from_tanks=False) if l_['a'] not in tids and l_['b'] not in tids]
            nsteps = o['duration'] // hyd
            if pp and nsteps >= 3:
                l0 = rng.pick(pp)
                twin = dict(l0, id='tw' + l0['id'], a=l0['b'], b=l0['a'], status='OPEN')
                scn['links'].insert(scn['links'].index(l0) + (1 if rng.chance(0.7) else 0), twin)
                victim = rng.pick([l0, l0, twin])
                k1 = rng.irange(0, nsteps - 2)
                k2 = rng.irange(k1 + 1, nsteps)
                if k1 == 0:
                    victim['status'] = 'CLOSED'
                else:
                    scn['controls'].append({'name': 'twin_close', 'kind': 'simple', 'cond': {'t': 'simtime', 'rel': '=', 'thr': int(k1 * hyd)},
                                            'then': [{'link': victim['id'], 'attr': 'status', 'value': 'CLOSED'}], 'priority': 3})
                if k2 < nsteps:
                    scn['controls'].append({'name': 'twin_open', 'kind': 'simple', 'cond': {'t': 'simtime', 'rel': '=', 'thr': int(k2 * hyd)},
                                            'then': [{'link': victim['id'], 'attr': 'status', 'value': 'OPEN'}], 'priority': 3})
        nu = 3 if tier == 'quick' else 10
        us = list(UNITS)
        rng.shuffle(us)
        scn['units'] = us[:nu]
        return scn

    def examine(self, scn, tier='quick'):
        import wntr
        c = {}
        viol = []
        out = e1.simulate(scn)
        kind, v = e1.classify(out)
        dig = out.rec.digest()
        sims = out.rec.steps[-1]['t'] if out.rec.steps else 0
        if kind in ('stepcap', 'repo_exception'):
            return verdict('discard', [], c, dig, discard='wntr_' + kind, sample=world.summary(scn))
        wntr_ok = kind == 'ok'
        nruns = 1
        ep = {}
        warn = {}
        with runsim.Scratch() as scratch:
            for u in scn['units']:
                wn = world.build(scn)
                res, exc, wl = run_epanet(wn, u, scratch, 'e_' + u)
                nruns += 1
                bump(c, 'c03.epanet_runs.' + u)
                if exc is not None:
                    bump(c, 'c03.epanet_raised.' + type(exc).__name__)
                    return verdict('discard', [], c, dig, discard='epanet_refuses_world', sample=world.summary(scn))
                ep[u] = res
                warn[u] = wl
            # (c) reader: re-read the first file, run EPANET on the re-read model (written again in another unit system)
            u0 = scn['units'][0]
            try:
                # the same file in a layout the WNTR writer never produces but EPANET accepts: the [DEMANDS] lines sorted by category, so
                # that the entries of one junction are no longer consecutive (EPANET adds up all the lines of a junction in any order)
                src_ = os.path.join(scratch, 'e_' + u0 + '.inp')
                if relayout_demands(src_, os.path.join(scratch, 'e_' + u0 + '_relaid.inp')):
                    src_ = os.path.join(scratch, 'e_' + u0 + '_relaid.inp')
                    bump(c, 'c03.reader.demands_section_relaid')
                wn_r = wntr.network.WaterNetworkModel(src_)
            except Exception as e:  # noqa
                viol.append(V('c03.reader_raises', type(e).__name__, 'reading the INP file WNTR wrote in %s: %r' % (u0, e)))
                wn_r = None
            rr = None
            if wn_r is not None:
                u1 = scn['units'][-1]
                rr, exc, wl = run_epanet(wn_r, u1, scratch, 'r_' + u1)
                nruns += 1
                if exc is not None and 'Error 110' in str(exc):
                    bump(c, 'c03.unhealthy.epanet_cannot_solve_reread')
                    return verdict('discard', [], c, dig, discard='epanet_cannot_solve', sample=world.summary(scn))
                if exc is not None:
                    viol.append(V('c03.reread_model_refused', type(exc).__name__, 'EPANET refuses the model re-read from the %s file and written in %s: %r' % (u0, u1, exc)))
                    rr = None
        ref = ep[scn['units'][0]]
        times = [int(t) for t in ref.node['head'].index]
        # ---------------- EPANET must be inside its modelling domain in every run (else its numbers are noise that depends on the units)
        o = scn['options']
        rs = o['report_step'] if isinstance(o.get('report_step'), int) else o['hyd_step']
        want_rows = o['duration'] // rs + 1
        jun = [n['id'] for n in scn['nodes'] if n['type'] == 'J']
        tnk = [n['id'] for n in scn['nodes'] if n['type'] == 'T']
        allres = list(ep.items()) + ([('reread', rr)] if rr is not None else [])
        for u, res in allres:
            bad = None
            if len(res.node['head'].index) != want_rows:
                bad = 'epanet_stopped_early'
            elif any('warning' in w.lower() or 'negative' in w.lower() or 'unbalanced' in w.lower() or 'disconnected' in w.lower() for w in warn.get(u, [])):
                bad = 'epanet_warning'
            else:
                pe = np.asarray(res.node['pressure'][jun].values, dtype=float)
                if pe.size and (not np.all(np.isfinite(pe)) or pe.min() <= 0.5):
                    bad = 'epanet_low_or_negative_pressure'
            if bad:
                bump(c, 'c03.unhealthy.' + bad)
                return verdict('discard', viol, c, dig, discard=bad, sample=world.summary(scn)) if not viol else verdict('violation', viol, c, dig, sample=world.summary(scn))
        # scales
        heads = np.asarray(ref.node['head'].values, dtype=float)
        flows = np.asarray(ref.link['flowrate'].values, dtype=float)
        if heads.size == 0 or not np.all(np.isfinite(heads)):
            return verdict('discard', [], c, dig, discard='epanet_nonfinite', sample=world.summary(scn))
        hrange = float(heads.max() - heads.min())
        qmax = float(np.abs(flows).max()) if flows.size else 0.0
        allruns = [r for _, r in allres] + ([out.tables] if (wntr_ok and out.tables is not None and inv.rows(out.tables) == times) else [])
        nrows_ok = comparable_rows(scn, allruns, len(times))
        # a running pump that delivers no flow (dead end behind it): its head is indeterminate (power pump: P/(rho g q)); rows excluded
        pumps = [l['id'] for l in scn['links'] if l['type'] == 'pump']
        idle_rows = set()
        for res_ in allruns:
            if pumps:
                qf = np.abs(np.asarray(res_.link['flowrate'][pumps].values, dtype=float))
                stp = np.asarray(res_.link['status'][pumps].values, dtype=float)
                idle_rows |= set(int(i) for i in np.where(((qf < 1e-5) & (stp != 0)).any(axis=1))[0])
            # a constant-power pump throttled to a small fraction of its design flow lifts P/(rho g q): hundreds or thousands of metres, and a
            # relative change of the flow (EPANET's 4-5 digit unit constants) changes that head by the same relative amount
            for l_ in scn['links']:
                if l_['type'] == 'pump' and l_.get('kind') == 'POWER':
                    gain = np.asarray(res_.node['head'][l_['b']].values, dtype=float) - np.asarray(res_.node['head'][l_['a']].values, dtype=float)
                    idle_rows |= set(int(i) for i in np.where(gain > 300.0)[0])
        if idle_rows:
            bump(c, 'c03.rows_with_idle_running_pump', len(idle_rows))
        # events between report rows are visible in the WNTR run only (all accepted steps): a partial step, or a status change of a
        # link that no timed control commands, ends the comparable part as well
        timed = set(a['link'] for ctl in scn['controls'] if ctl['cond']['t'] in ('simtime', 'clock') for a in ctl['then'] + ctl.get('else', []))
        lids = [l['id'] for l in scn['links']]
        t_ev = None
        prev = None
        for st_ in out.rec.steps:
            if st_['t'] % rs:
                t_ev = st_['t']
                break
            cur = {lid: st_['links'][lid]['status'] for lid in lids if lid not in timed}
            if prev is not None and cur != prev:
                t_ev = st_['t']
                break
            prev = cur
        if t_ev is not None:
            nrows_ok = min(nrows_ok, len([t for t in times if t < t_ev]))
        bump(c, 'c03.rows_comparable', nrows_ok)
        bump(c, 'c03.rows_total', len(times))
        pdd = scn['options'].get('demand_model') == 'PDD'
        # ---------------- (a) unit independence, EPANET vs EPANET
        others = [(u, ep[u]) for u in scn['units'][1:]]
        if rr is not None:
            others.append(('reread:' + scn['units'][-1], rr))
        for u, res in others:
            lab = 'c03.reader' if u.startswith('reread') else 'c03.units'
            t2 = [int(t) for t in res.node['head'].index]
            if t2 != times:
                viol.append(V(lab + '.index', u.split(':')[0], 'report index differs between %s and %s: %r vs %r' % (scn['units'][0], u, times[:8], t2[:8])))
                continue
            bump(c, lab + '.comparisons')
            su = np.asarray(res.link['status'][ref.link['status'].columns].values)
            sr = np.asarray(ref.link['status'].values)
            rows_ok = [i for i in range(nrows_ok) if i not in idle_rows]
            # rows in which closed links cut a junction off from every source are not comparable: EPANET's head there is arbitrary
            cut = [i for i in range(len(times)) if inv.ref_isolated(scn, dict(zip(ref.link['status'].columns, sr[i])))]
            if cut:
                bump(c, lab + '.rows_with_cut_off_junctions', len(cut))
                rows_ok = [i for i in rows_ok if i < min(cut)]
            if not np.array_equal(su, sr):
                first = int(np.where((su != sr).any(axis=1))[0][0])
                if self.near_threshold(scn, out, ref, times, first):
                    # the same engine takes the other branch of a status decision when the text precision moves a number
                    # across its threshold: comparable only before that row
                    bump(c, lab + '.skipped_status_knife_edge')
                    rows_ok = [i for i in rows_ok if i < first]
                else:
                    j = int(np.where(su[first] != sr[first])[0][0])
                    viol.append(V(lab + '.status', 'differs', '%s vs %s: status[%s] at t=%d: %r vs %r' % (u, scn['units'][0], ref.link['status'].columns[j], times[first], su[first, j], sr[first, j])))
                    continue
            for grp, key, atol in (('node', 'head', 5e-3 + 6e-4 * hrange), ('node', 'pressure', 5e-3 + 6e-4 * hrange),
                                   ('node', 'demand', 1.5e-3 * qmax + 2e-6), ('link', 'flowrate', 1.5e-3 * qmax + 2e-6)):
                cols = list(tab(ref, grp, key).columns) if key != 'pressure' else (jun + tnk)
                a = np.asarray(tab(res, grp, key)[cols].values, dtype=float)[rows_ok]
                b = np.asarray(tab(ref, grp, key)[cols].values, dtype=float)[rows_ok]
                bad = np.where(np.abs(a - b) > atol)
                if len(bad[0]) and pdd and len(set(int(i_) for i_ in bad[0])) < max(2, 0.3 * len(rows_ok)):
                    # EPANET's pressure-driven solutions of ONE model differ by decimetres at isolated steps between two runs (world 3607
                    # of seed 20260928, with tight HEADERROR/FLOWCHANGE too): in PDD worlds a difference counts when it shows at
                    # >= 30 % of the comparable rows (a wrong unit factor shows at every row in the pressure-dependent range)
                    bump(c, lab + '.pdd_isolated_row_differences')
                    bad = (np.array([], dtype=int), np.array([], dtype=int))
                if len(bad[0]):
                    i, j = int(bad[0][0]), int(bad[1][0])
                    viol.append(V(lab + '.' + key, 'differs', '%s vs %s: %s[%s] at t=%d: %.9g vs %.9g (bound %.3g, %d cells)' %
                                  (u, scn['units'][0], key, cols[j], times[rows_ok[i]], a[i, j], b[i, j], atol, len(bad[0]))))
        # ---------------- (b) engine agreement on healthy worlds
        healthy = wntr_ok
        why = None
        if not wntr_ok:
            why = 'wntr_' + kind
        if healthy:
            pw = np.asarray(out.tables.node['pressure'][jun].values, dtype=float)
            pe0 = np.asarray(ref.node['pressure'][jun].values, dtype=float)
            # low pressures in WNTR excuse the world only when EPANET is near them too: where EPANET has every junction well above
            # zero, a WNTR pressure at or below zero (e.g. a district wrongly zeroed as isolated) is a disagreement to be reported
            if pw.size and pw.min() <= 0.5 and (not pe0.size or pe0.min() <= 1.5):
                healthy, why = False, 'wntr_low_or_negative_pressure'
        # cut-off junctions are decided by the reference reachability over the statuses WNTR reports, not by WNTR's own isolation flags
        if healthy and any(inv.ref_isolated(scn, {lid: d_['status'] for lid, d_ in s['links'].items()}) for s in out.rec.steps):
            healthy, why = False, 'isolated_junctions'
        elif healthy and any(s['isolated'] for s in out.rec.steps):
            bump(c, 'c03.wntr_isolates_reachable_junctions')
        tw = inv.rows(out.tables) if out.tables is not None else []
        if healthy and tw != times:
            viol.append(V('c03.engines.index', 'index', 'report index: WNTR %r, EPANET %r' % (tw[:10], times[:10])))
            healthy, why = False, 'index'
        rev = None
        if healthy:
            for l in scn['links']:
                if l['type'] == 'pump' and l.get('kind') == 'POWER':
                    qf = np.asarray(out.tables.link['flowrate'][l['id']].values, dtype=float)
                    if len(qf) and qf.min() < -rm.QTOL:
                        rev = (l['id'], float(qf.min()))
        if rev is not None:
            # the known C02 finding seen through the second engine: WNTR puts a constant-power pump on its negative-flow root
            viol.append(V('c03.engines.power_pump_reverse', 'power_pump', 'WNTR solves power pump %s with reverse flow %.4g m3/s; EPANET does not' % rev))
            healthy, why = False, 'power_pump_reverse'
        if not healthy:
            bump(c, 'c03.unhealthy.' + str(why))
        else:
            bump(c, 'c03.engine_comparisons')
            # status timelines; steps at which they differ next to a threshold crossing are skipped and counted
            sw = np.asarray(out.tables.link['status'][ref.link['status'].columns].values, dtype=float)
            se = np.asarray(ref.link['status'].values, dtype=float)
            # EPANET reports active valves as 2.., WNTR as Active=2; compare open/closed only for pumps and pipes, exact for valves when both are in {0,1,2}
            row_bad = np.where((sw != se).any(axis=1))[0]
            skip = set(int(i) for i in row_bad)
            if len(row_bad):
                bump(c, 'c03.status_rows_differ', len(row_bad))
            tanks = [n['id'] for n in scn['nodes'] if n['type'] == 'T']
            lvl_scale = 1.0
            # around zero flow every q with R*q^1.852 below the head tolerance is a converged solution (loops of short fat pipes)
            from .. import oracles as _or
            cond = max(v for k_, v in _or.flow_col_atol(scn, ref, times).items() if not isinstance(k_, tuple)) if scn['links'] else 0.0
            checks = (('node', 'head', 0.03 + 1e-3 * hrange), ('node', 'pressure', 0.03 + 1e-3 * hrange),
                      ('node', 'demand', 5e-3 * qmax + 1e-6 + cond), ('link', 'flowrate', 1e-2 * qmax + 3e-5 + cond))
            # a tank that reaches a level limit: EPANET keeps the flows of the solution just before the limit for the rest of the step and
            # clamps the volume (observed: world 556 of seed 20260928 - it hands out water the tank does not have); from that row on the
            # two engines legitimately differ
            for tk_ in [n for n in scn['nodes'] if n['type'] == 'T']:
                le = np.asarray(ref.node['pressure'][tk_['id']].values, dtype=float)
                lw = np.asarray(out.tables.node['pressure'][tk_['id']].values, dtype=float)
                band = 0.02 * (tk_['max'] - tk_['min']) + 0.01
                hit = np.where((le <= tk_['min'] + band) | (le >= tk_['max'] - band) | (lw <= tk_['min'] + band) | (lw >= tk_['max'] - band))[0]
                if len(hit):
                    bump(c, 'c03.rows_after_tank_limit')
                    skip |= set(range(int(hit[0]), len(times)))
            ok_rows = [i for i in range(nrows_ok) if i not in skip and i not in idle_rows]
            # a status difference persists until the engines meet again: compare only the rows before the first difference
            if skip:
                first = min(skip)
                ok_rows = [i for i in ok_rows if i < first]
            for grp, key, atol in checks:
                cols = list(tab(ref, grp, key).columns) if key != 'pressure' else (jun + tnk)
                A_ = np.asarray(tab(out.tables, grp, key)[cols].values, dtype=float)
                B_ = np.asarray(tab(ref, grp, key)[cols].values, dtype=float)
                if not ok_rows:
                    break
                a = A_[ok_rows]
                b = B_[ok_rows]
                bad = np.where(np.abs(a - b) > atol + 1e-3 * np.abs(b))
                if len(bad[0]) and pdd and len(set(int(i_) for i_ in bad[0])) < max(2, 0.3 * len(ok_rows)):
                    bump(c, 'c03.engines.pdd_isolated_row_differences')
                    bad = (np.array([], dtype=int), np.array([], dtype=int))
                if len(bad[0]):
                    i, j = int(bad[0][0]), int(bad[1][0])
                    viol.append(V('c03.engines.' + key, 'differs', 'WNTR vs EPANET: %s[%s] at t=%d: %.9g vs %.9g (bound %.3g, %d cells)' %
                                  (key, cols[j], times[ok_rows[i]], a[i, j], b[i, j], atol, len(bad[0]))))
            if len(row_bad) and int(row_bad[0]) > 0 and int(row_bad[0]) == min(skip):
                # the status timelines differ from row `first` on: a violation only if no control threshold is near (both engines
                # resolve a crossing within the same hydraulic step, so a difference must be explained by a crossing in that step)
                first = min(skip)
                near = self.near_threshold(scn, out, ref, times, first)
                if near:
                    bump(c, 'c03.skipped_status_near_threshold')
                else:
                    j = int(np.where(sw[first] != se[first])[0][0])
                    viol.append(V('c03.engines.status', 'differs', 'WNTR vs EPANET: status[%s] at t=%d: %r vs %r and no control threshold is crossed around that step' %
                                  (ref.link['status'].columns[j], times[first], sw[first, j], se[first, j])))
        # a PRV / PSV that WNTR keeps closed over two consecutive report rows although, in WNTR's own reported state, the heads at its ends
        # satisfy EPANET's rule for leaving the closed state with a metre to spare, while EPANET has it regulating or open
        if wntr_ok and out.tables is not None and inv.rows(out.tables) == times:
            # (asked of every world in which both engines ran to the end: a valve that stays closed empties the zone's tank and ends up
            # with cut-off junctions, which the healthy-world filter would otherwise put aside)
            elev = dict((n_['id'], n_.get('elev', 0.0)) for n_ in scn['nodes'])
            commanded = set(a_['link'] for ctl in scn['controls'] for a_ in ctl['then'] + ctl.get('else', []))
            hw = out.tables.node['head']
            for l_ in scn['links']:
                if l_['type'] != 'valve' or l_.get('vtype') not in ('PRV', 'PSV') or l_['id'] in commanded:
                    continue
                sw_ = np.asarray(out.tables.link['status'][l_['id']].values, dtype=float)
                se_ = np.asarray(ref.link['status'][l_['id']].values, dtype=float)
                hset = float(l_['setting']) + (elev.get(l_['b'], 0.0) if l_['vtype'] == 'PRV' else elev.get(l_['a'], 0.0))
                run = 0
                for i_ in range(len(times)):
                    h1, h2 = float(hw[l_['a']].iloc[i_]), float(hw[l_['b']].iloc[i_])
                    if l_['vtype'] == 'PRV':
                        must_leave = (h1 >= hset + 1.0 and h2 <= hset - 1.0) or (h1 <= hset - 1.0 and h1 >= h2 + 1.0)
                    else:
                        must_leave = h1 >= hset + 1.0 and h1 >= h2 + 1.0
                    if h1 == 0.0 or h2 == 0.0:
                        must_leave = False          # an end node reported as cut off (zeros): no heads to judge by
                    run = run + 1 if (sw_[i_] == 0 and must_leave) else 0
                    if run >= 2 and np.any(se_[:i_ + 1] != 0) and not np.any(sw_[:i_ + 1] != 0):
                        bump(c, 'c03.valve_stuck_closed_rows')
                        viol.append(V('c03.engines.valve_stuck_closed', l_['vtype'], 'WNTR keeps %s %s closed at t=%d and the row before (its own heads: upstream %.3f, downstream %.3f, set head %.3f) '
                                      'and has never let it leave the closed state, while EPANET has (status %r now)' % (l_['vtype'], l_['id'], times[i_], h1, h2, hset, se_[i_])))
                        break
        acted = any(s['status'] != out.rec.steps[0]['status'] for s in out.rec.steps[1:]) if out.rec.steps else False
        rich = any(n['type'] == 'T' for n in scn['nodes']) or any(l['type'] == 'pump' for l in scn['links'])
        return verdict('violation' if viol else 'ok', viol, c, dig, nontrivial=bool(healthy and acted and rich), sim_seconds=sims * nruns, runs=nruns,
                       ngrams=ngrams(event_kinds(out.rec, scn)), sample=world.summary(scn))

    def near_threshold(self, scn, out, ref, times, row):
        """is some level/pressure control threshold, tank limit or valve/pump/check-valve switching point within reach at this row?
        (generous: any conditional control, tank, check valve, pump or PRV/PSV/FCV in the world makes a status difference explainable)"""
        if any(c['cond']['t'] in ('level', 'pressure', 'and', 'or') for c in scn['controls']):
            return True
        if any(n['type'] == 'T' for n in scn['nodes']):
            return True
        if any(l['type'] in ('pump', 'valve') or l.get('cv') for l in scn['links']):
            return True
        return False


PROP = C03()
