"""Per-property checks.  Each module exposes PROP, an instance of base.Prop."""
import importlib

IDS = ['C01', 'C02', 'C03', 'C04', 'C05', 'C06', 'C07', 'C08', 'C09', 'C10', 'C11', 'C12', 'C13', 'C14', 'C15', 'C16']


def get(pid):
    mod = importlib.import_module('wsim.props.' + pid.lower())
    return mod.PROP
