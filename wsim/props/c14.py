"""C14 - all views of the model stay mutually consistent under any edit history (engine E2, checked against the mirror
after every operation; refused operations and restarts are the faults inside the history)."""
import copy
import traceback

from .. import store, storegen, runsim
from ..oracles import V
from .base import Prop, verdict, bump

COMPONENTS = {
    'real': ['wntr.network (WaterNetworkModel, registries, elements, controls) from the working tree of /repo',
             'wntr.network.io to_dict/from_dict/write_json/read_json', 'wntr.epanet.io INP writer and reader', 'pickle / copy.deepcopy of the standard library'],
    'simulated': ['the edit history (seeded operation sequence)', 'refused operations placed on elements that are in use',
                  'restarts: only the persisted image (pickle, deepcopy, dict, JSON file, INP file) survives', 'scratch directory per history'],
    'stub': [],
}

WEIGHTS = {'add_pattern': 3, 'add_curve': 3, 'add_junction': 6, 'add_tank': 2, 'add_reservoir': 2, 'add_pipe': 6, 'add_pump': 3, 'add_valve': 3,
           'add_source': 2, 'add_demand': 2, 'add_control': 4, 'remove': 10, 'remove_free_node': 1, 'set_end': 3, 'set_ref': 4, 'set_attr': 1,
           'leak': 1, 'set_option': 0, 'restart': 2}


FILES = [('Net1', 3), ('Net2', 2), ('Net3', 3), ('ky10', 1), ('Net6', 0.5)]


class FileMirror(object):
    """what the restart oracles need to know about a model that was read from a file and has no mirror: which curves are referenced"""

    def __init__(self, wn):
        d = wn.to_dict()
        self.curves = [c_['name'] for c_ in d['curves']]
        self.links = [l_['name'] for l_ in d['links']]
        self.controls = {}
        used = set()
        for l_ in d['links']:
            for k_ in ('pump_curve_name', 'efficiency'):
                v_ = l_.get(k_)
                if isinstance(v_, str):
                    used.add(v_)
                elif isinstance(v_, dict) and v_.get('name'):
                    used.add(v_['name'])
        for n_ in d['nodes']:
            if n_.get('vol_curve_name'):
                used.add(n_['vol_curve_name'])
        self.used = used

    def curve_referenced(self, c_):
        return c_ in self.used


def file_edit(wn, op):
    """an edit through the public API on a model that came from a file: elements are addressed by position"""
    k = op['kind']
    i = int(op['i'])
    if k == 'pipe' and wn.pipe_name_list:
        setattr(wn.get_link(wn.pipe_name_list[i % len(wn.pipe_name_list)]), op['attr'], op['value'])
    elif k == 'pipe_status' and wn.pipe_name_list:
        l_ = wn.get_link(wn.pipe_name_list[i % len(wn.pipe_name_list)])
        if not l_.check_valve:
            l_.initial_status = op['value']
    elif k == 'junction' and wn.junction_name_list:
        j_ = wn.get_node(wn.junction_name_list[i % len(wn.junction_name_list)])
        if op['attr'] == 'elevation':
            j_.elevation = op['value']
        elif op['attr'] == 'base_demand' and len(j_.demand_timeseries_list):
            j_.demand_timeseries_list[0].base_value = op['value']
        elif op['attr'] == 'add_demand':
            j_.add_demand(op['value'], None, op.get('cat'))
    elif k == 'tank' and wn.tank_name_list:
        t_ = wn.get_node(wn.tank_name_list[i % len(wn.tank_name_list)])
        if op['attr'] == 'init_level':
            t_.init_level = t_.min_level + (t_.max_level - t_.min_level) * op['value']
        elif op['attr'] == 'overflow':
            t_.overflow = bool(op['value'])
    elif k == 'pattern' and wn.pattern_name_list:
        wn.get_pattern(wn.pattern_name_list[i % len(wn.pattern_name_list)]).multipliers = list(op['value'])
    elif k == 'control' and wn.pipe_name_list:
        import wntr.network.controls as ct
        l_ = wn.get_link(wn.pipe_name_list[i % len(wn.pipe_name_list)])
        if l_.check_valve:
            return
        act = ct.ControlAction(l_, 'status', 1 if op['value'] == 'OPEN' else 0)
        name = 'fc%d' % op['n']
        if name in wn.control_name_list:
            return
        if op['how'] == 'simple':
            wn.add_control(name, ct.Control(ct.SimTimeCondition(wn, '=', float(op['t'])), act))
        else:
            wn.add_control(name, ct.Rule(ct.SimTimeCondition(wn, '>=', float(op['t'])), [act], priority=op.get('priority', 3)))
    elif k == 'option':
        store.real_step(wn, {'op': 'set_option', 'path': op['path'], 'value': op['value']})


def gen_file_history(rng):
    from ..storegen import OPTION_CHOICES
    ops = []
    for _ in range(rng.irange(2, 6)):
        kd = rng.wpick([('edit', 3), ('restart', 4)])
        if kd == 'restart':
            how = rng.wpick([('inp', 5), ('dict', 2), ('json', 2), ('pickle', 1), ('deepcopy', 1)])
            op = {'op': 'restart', 'how': how}
            if how == 'inp':
                op['units'] = rng.pick(['GPM', 'CFS', 'MGD', 'IMGD', 'AFD', 'LPS', 'LPM', 'MLD', 'CMH', 'CMD'])
                op['version'] = rng.pick([2.0, 2.2, 2.2])
            ops.append(op)
            continue
        k = rng.wpick([('pipe', 3), ('pipe_status', 1), ('junction', 3), ('tank', 2), ('pattern', 1), ('control', 2), ('option', 3)])
        op = {'op': 'fedit', 'kind': k, 'i': rng.irange(0, 5000)}
        if k == 'pipe':
            op['attr'] = rng.pick(['roughness', 'diameter', 'length', 'minor_loss'])
            op['value'] = {'roughness': rng.pick([87.0, 101.5, 140.0]), 'diameter': rng.pick([0.1524, 0.3, 0.4572]), 'length': round(rng.uni(10.0, 2000.0), 3),
                           'minor_loss': rng.pick([0.0, 0.9, 12.5])}[op['attr']]
        elif k == 'pipe_status':
            op['value'] = rng.pick(['OPEN', 'CLOSED'])
        elif k == 'junction':
            op['attr'] = rng.pick(['elevation', 'base_demand', 'add_demand'])
            op['value'] = round(rng.uni(1.0, 90.0), 3) if op['attr'] == 'elevation' else round(rng.uni(1e-4, 2e-2), 7)
            op['cat'] = rng.pick([None, 'ind'])
        elif k == 'tank':
            op['attr'] = rng.pick(['init_level', 'overflow'])
            op['value'] = round(rng.uni(0.1, 0.9), 3) if op['attr'] == 'init_level' else True
        elif k == 'pattern':
            op['value'] = [round(rng.uni(0.2, 1.9), 3) for _ in range(rng.irange(2, 8))]
        elif k == 'control':
            op.update(how=rng.pick(['simple', 'rule']), t=int(rng.irange(1, 40) * 1800), value=rng.pick(['OPEN', 'CLOSED']), n=rng.irange(1, 4), priority=rng.irange(1, 5))
        elif k == 'option':
            path, vals = rng.pick([oc for oc in OPTION_CHOICES if not oc[0].startswith('time.') and oc[0] not in ('hydraulic.demand_model',)])
            op['path'], op['value'] = path, rng.pick(vals)
        ops.append(op)
    if not any(o_['op'] == 'restart' for o_ in ops):
        ops.append({'op': 'restart', 'how': 'inp', 'units': rng.pick(['GPM', 'LPS', 'CMH', 'AFD']), 'version': 2.2})
    return ops


class StoreProp(Prop):
    engine = 'E2'
    p_file = 0.0
    components = COMPONENTS
    chunk = 32
    shrink_budget = 400
    profile = {}

    def make(self, rng, tier):
        prof = dict(self.profile)
        if self.p_file and rng.chance(self.p_file):
            # a history that starts from a model read from one of the INP files shipped with the package
            return {'v': 1, 'engine': 'E2', 'file': rng.wpick(FILES), 'ops': gen_file_history(rng)}
        ops = storegen.gen_history(rng, prof)
        return {'v': 1, 'engine': 'E2', 'ops': ops}

    # ---- shrinking: drop operations (any sub-list is executable: ops whose precondition fails are skipped)
    def focus(self, scn, violation):
        at = violation.get('at')
        if at is None:
            return None
        s = copy.deepcopy(scn)
        s['ops'] = s['ops'][:at + 1]
        return s

    def candidates_override(self, scn):
        ops = scn['ops']
        n = len(ops)
        size = max(1, n // 2)
        while size >= 1:
            for i in range(0, n, size):
                s = copy.deepcopy(scn)
                del s['ops'][i:i + size]
                if s['ops']:
                    yield 'drop ops[%d:%d]' % (i, i + size), s
            if size == 1:
                break
            size //= 2
        for i, op in enumerate(ops):
            if op['op'] == 'restart' and op['how'] != 'deepcopy':
                s = copy.deepcopy(scn)
                s['ops'][i] = {'op': 'restart', 'how': 'deepcopy'}
                yield 'restart %d -> deepcopy' % i, s
            if op['op'] == 'add_control' and op['spec']['cond']['t'] in ('and', 'or'):
                for side in ('a', 'b'):
                    s = copy.deepcopy(scn)
                    s['ops'][i]['spec']['cond'] = op['spec']['cond'][side]
                    yield 'simplify condition of op %d' % i, s

    # ---- execution
    def at_restart(self, wn_before, wn_after, op, m, c, scratch):
        """property-specific oracle at a restart; -> violations"""
        return []

    def after_op(self, wn, m, op, c):
        return store.views_check(wn, m, c)

    def examine_file(self, scn):
        """history on a model read from a shipped INP file: no mirror; the restart oracles compare the model with its reloaded self"""
        import os
        import warnings
        import hashlib
        import json
        import wntr
        from .. import build
        c = {}
        viol = []
        executed = []
        with runsim.Scratch() as scratch, warnings.catch_warnings(record=True):
            warnings.simplefilter('always', append=True)
            wn = wntr.network.WaterNetworkModel(os.path.join(build.REPO, 'examples', 'networks', scn['file'] + '.inp'))
            bump(c, 'file_histories.' + scn['file'])
            for i, op in enumerate(scn['ops']):
                vv = []
                if op['op'] == 'restart':
                    executed.append('restart.' + op['how'])
                    bump(c, 'fired.restart.' + op['how'])
                    m = FileMirror(wn)
                    try:
                        wn2 = store.persist(wn, op['how'], scratch, op.get('units', 'LPS'), op.get('version', 2.2))
                    except Exception as e:  # noqa
                        site = runsim.innermost_repo_frame(e.__traceback__)
                        vv.append(V(self.id.lower() + '.restart_raises', '%s:%s@%s:file' % (op['how'], type(e).__name__, site), traceback.format_exc()[-900:]))
                        wn2 = None
                    if wn2 is not None:
                        vv += self.at_restart(wn, wn2, op, m, c, scratch)
                        wn = wn2
                else:
                    executed.append('fedit.' + op['kind'])
                    bump(c, 'ops.fedit.' + op['kind'])
                    try:
                        file_edit(wn, op)
                    except Exception as e:  # noqa
                        vv.append(V(self.id.lower() + '.valid_op_raises', 'fedit.%s:%s' % (op['kind'], type(e).__name__), '%r: %s' % (op, traceback.format_exc()[-700:])))
                for x in vv:
                    x['at'] = i
                viol += vv
                if viol:
                    break
        dig = hashlib.sha256(json.dumps([scn['file']] + executed).encode()).hexdigest()[:20]
        grams = sorted(set('>'.join(executed[j:j + 3]) for j in range(max(0, len(executed) - 2))))
        return verdict('violation' if viol else 'ok', viol, c, dig, nontrivial=True, runs=1, ngrams=grams,
                       sample={'file': scn['file'], 'ops_executed': len(executed), 'first_ops': executed[:12]})

    def examine(self, scn, tier='quick'):
        import wntr
        if scn.get('file'):
            return self.examine_file(scn)
        c = {}
        viol = []
        m = store.Mirror()
        wn = wntr.network.WaterNetworkModel()
        executed = []
        import warnings
        with runsim.Scratch() as scratch, warnings.catch_warnings(record=True):
            warnings.simplefilter('always', append=True)
            for i, op in enumerate(scn['ops']):
                r = store.mirror_step(m, op)
                if r == 'skip':
                    continue
                executed.append(op['op'] if op['op'] != 'restart' else 'restart.' + op['how'])
                vv = []
                if r == 'restart':
                    bump(c, 'fired.restart.' + op['how'])
                    try:
                        wn2 = store.persist(wn, op['how'], scratch, op.get('units', 'LPS'), op.get('version', 2.2))
                    except Exception as e:  # noqa
                        site = runsim.innermost_repo_frame(e.__traceback__)
                        leak = any('leak_control' in n_ for n_ in wn.control_name_list)
                        vv.append(V(self.id.lower() + '.restart_raises', '%s:%s@%s%s' % (op['how'], type(e).__name__, site, ':model_with_leak_controls' if leak else ''),
                                    traceback.format_exc()[-900:]))
                        wn2 = None
                    if wn2 is not None:
                        vv += self.at_restart(wn, wn2, op, m, c, scratch)
                        store.rename_after_restart(m, op['how'])
                        wn = wn2
                elif r == 'refuse':
                    bump(c, 'fired.refused_op.' + op['op'])
                    before = store.state_digest(wn)
                    raised = None
                    try:
                        store.real_step(wn, op)
                    except Exception as e:  # noqa
                        raised = e
                    if self.id == 'C14':
                        if raised is None:
                            vv.append(V('c14.in_use_removal_not_refused', op['op'], '%r succeeded although %s' % (op, 'the element is still in use' if op['op'].startswith('remove') else 'the operation is documented as refused')))
                        elif store.state_digest(wn) != before:
                            vv.append(V('c14.refused_op_changed_model', op['op'] + ('+with_control' if op.get('with_control') else ''),
                                        '%r was refused (%s) but the model changed' % (op, type(raised).__name__)))
                    if raised is None:
                        # the model diverged from the mirror: nothing further can be compared
                        for x in vv:
                            x['at'] = i
                        viol += vv
                        break
                else:
                    bump(c, 'ops.' + op['op'])
                    try:
                        store.real_step(wn, op)
                    except Exception as e:  # noqa
                        vv.append(V(self.id.lower() + '.valid_op_raises', '%s:%s' % (op['op'], type(e).__name__), '%r: %s' % (op, traceback.format_exc()[-700:])))
                if not vv:
                    vv = self.after_op(wn, m, op, c)
                for x in vv:
                    x['at'] = i
                viol += vv
                if viol:
                    break
        import hashlib
        import json
        dig = hashlib.sha256(json.dumps(executed).encode()).hexdigest()[:20]
        nt = len(executed) >= 5 and any(e.startswith('remove') or e.startswith('restart') for e in executed)
        grams = sorted(set('>'.join(executed[j:j + 3]) for j in range(max(0, len(executed) - 2))))
        sample = {'ops_executed': len(executed), 'first_ops': executed[:12], 'elements': {'nodes': len(m.nodes), 'links': len(m.links), 'patterns': len(m.patterns),
                  'curves': len(m.curves), 'sources': len(m.sources), 'controls': len(m.controls)}}
        return verdict('violation' if viol else 'ok', viol, c, dig, nontrivial=nt, runs=1, ngrams=grams, sample=sample)


class C14(StoreProp):
    id = 'C14'
    quick_runs = 8000
    thorough_runs = 120000
    profile = {'weights': WEIGHTS, 'n_ops': (8, 40),
               'restarts': [('pickle', 2), ('deepcopy', 2), ('dict', 2), ('json', 1), ('inp', 2)]}
    rule = ('one case = one seeded edit history of 8-40 operations (add junction/tank/reservoir/pipe/pump/valve/pattern/curve/source/control, extra demands, '
            'remove_* with and without with_control - half of them aimed at elements still in use so that they must be refused -, reassignment of link end '
            'nodes, pump speed pattern/curve, reservoir head pattern, tank volume curve, and restarts through pickle/deepcopy/dict/JSON/INP after which the '
            'history continues on the reloaded model) executed on the real model and on a mirror of plain dicts; after EVERY operation every name list, '
            'count, typed iterator, describe(), link end nodes, get_links_for_node (ALL/INLET/OUTLET), to_graph and every usage record is compared with '
            'the mirror; a refused operation must raise and leave the full state digest unchanged. non-trivial = >= 5 executed operations incl. a removal '
            'or restart; distinct = digest of the executed operation sequence')
    assumptions = ['operations are valid uses of the API: names are unique per registry and referenced elements exist (duplicate names silently replace elements '
                   'in WNTR; the statement does not cover that)',
                   'names the persistence formats do not keep are renamed in the mirror at a restart (simple controls -> "control k", INP sources -> "INPk")']


PROP = C14()
