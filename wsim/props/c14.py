"""C14 - all views of the model stay mutually consistent under any edit history (engine E2, checked against the mirror
after every operation; refused operations and restarts are the faults inside the history)."""
import copy
import traceback

from .. import store, storegen, runsim
from ..oracles import V
from .base import Prop, verdict, bump

COMPONENTS = {
    'real': ['wntr.network (WaterNetworkModel, registries, elements, controls) from the working tree of /repo',
             'wntr.network.io to_dict/from_dict/write_json/read_json', 'wntr.epanet.io INP writer and reader', 'pickle / copy.deepcopy of the standard library'],
    'simulated': ['the edit history (seeded operation sequence)', 'refused operations placed on elements that are in use',
                  'restarts: only the persisted image (pickle, deepcopy, dict, JSON file, INP file) survives', 'scratch directory per history'],
    'stub': [],
}

WEIGHTS = {'add_pattern': 3, 'add_curve': 3, 'add_junction': 6, 'add_tank': 2, 'add_reservoir': 2, 'add_pipe': 6, 'add_pump': 3, 'add_valve': 3,
           'add_source': 2, 'add_demand': 2, 'add_control': 4, 'remove': 10, 'remove_free_node': 1, 'set_end': 3, 'set_ref': 4, 'set_attr': 1,
           'leak': 1, 'set_option': 0, 'restart': 2}


class StoreProp(Prop):
    engine = 'E2'
    components = COMPONENTS
    chunk = 32
    shrink_budget = 400
    profile = {}

    def make(self, rng, tier):
        prof = dict(self.profile)
        ops = storegen.gen_history(rng, prof)
        return {'v': 1, 'engine': 'E2', 'ops': ops}

    # ---- shrinking: drop operations (any sub-list is executable: ops whose precondition fails are skipped)
    def focus(self, scn, violation):
        at = violation.get('at')
        if at is None:
            return None
        s = copy.deepcopy(scn)
        s['ops'] = s['ops'][:at + 1]
        return s

    def candidates_override(self, scn):
        ops = scn['ops']
        n = len(ops)
        size = max(1, n // 2)
        while size >= 1:
            for i in range(0, n, size):
                s = copy.deepcopy(scn)
                del s['ops'][i:i + size]
                if s['ops']:
                    yield 'drop ops[%d:%d]' % (i, i + size), s
            if size == 1:
                break
            size //= 2
        for i, op in enumerate(ops):
            if op['op'] == 'restart' and op['how'] != 'deepcopy':
                s = copy.deepcopy(scn)
                s['ops'][i] = {'op': 'restart', 'how': 'deepcopy'}
                yield 'restart %d -> deepcopy' % i, s
            if op['op'] == 'add_control' and op['spec']['cond']['t'] in ('and', 'or'):
                for side in ('a', 'b'):
                    s = copy.deepcopy(scn)
                    s['ops'][i]['spec']['cond'] = op['spec']['cond'][side]
                    yield 'simplify condition of op %d' % i, s

    # ---- execution
    def at_restart(self, wn_before, wn_after, op, m, c, scratch):
        """property-specific oracle at a restart; -> violations"""
        return []

    def after_op(self, wn, m, op, c):
        return store.views_check(wn, m, c)

    def examine(self, scn, tier='quick'):
        import wntr
        c = {}
        viol = []
        m = store.Mirror()
        wn = wntr.network.WaterNetworkModel()
        executed = []
        import warnings
        with runsim.Scratch() as scratch, warnings.catch_warnings(record=True):
            warnings.simplefilter('always', append=True)
            for i, op in enumerate(scn['ops']):
                r = store.mirror_step(m, op)
                if r == 'skip':
                    continue
                executed.append(op['op'] if op['op'] != 'restart' else 'restart.' + op['how'])
                vv = []
                if r == 'restart':
                    bump(c, 'fired.restart.' + op['how'])
                    try:
                        wn2 = store.persist(wn, op['how'], scratch, op.get('units', 'LPS'), op.get('version', 2.2))
                    except Exception as e:  # noqa
                        site = runsim.innermost_repo_frame(e.__traceback__)
                        leak = any('leak_control' in n_ for n_ in wn.control_name_list)
                        vv.append(V(self.id.lower() + '.restart_raises', '%s:%s@%s%s' % (op['how'], type(e).__name__, site, ':model_with_leak_controls' if leak else ''),
                                    traceback.format_exc()[-900:]))
                        wn2 = None
                    if wn2 is not None:
                        vv += self.at_restart(wn, wn2, op, m, c, scratch)
                        store.rename_after_restart(m, op['how'])
                        wn = wn2
                elif r == 'refuse':
                    bump(c, 'fired.refused_op.' + op['op'])
                    before = store.state_digest(wn)
                    raised = None
                    try:
                        store.real_step(wn, op)
                    except Exception as e:  # noqa
                        raised = e
                    if self.id == 'C14':
                        if raised is None:
                            vv.append(V('c14.in_use_removal_not_refused', op['op'], '%r succeeded although the element is still in use' % (op,)))
                        elif store.state_digest(wn) != before:
                            vv.append(V('c14.refused_op_changed_model', op['op'] + ('+with_control' if op.get('with_control') else ''),
                                        '%r was refused (%s) but the model changed' % (op, type(raised).__name__)))
                    if raised is None:
                        # the model diverged from the mirror: nothing further can be compared
                        for x in vv:
                            x['at'] = i
                        viol += vv
                        break
                else:
                    bump(c, 'ops.' + op['op'])
                    try:
                        store.real_step(wn, op)
                    except Exception as e:  # noqa
                        vv.append(V(self.id.lower() + '.valid_op_raises', '%s:%s' % (op['op'], type(e).__name__), '%r: %s' % (op, traceback.format_exc()[-700:])))
                if not vv:
                    vv = self.after_op(wn, m, op, c)
                for x in vv:
                    x['at'] = i
                viol += vv
                if viol:
                    break
        import hashlib
        import json
        dig = hashlib.sha256(json.dumps(executed).encode()).hexdigest()[:20]
        nt = len(executed) >= 5 and any(e.startswith('remove') or e.startswith('restart') for e in executed)
        grams = sorted(set('>'.join(executed[j:j + 3]) for j in range(max(0, len(executed) - 2))))
        sample = {'ops_executed': len(executed), 'first_ops': executed[:12], 'elements': {'nodes': len(m.nodes), 'links': len(m.links), 'patterns': len(m.patterns),
                  'curves': len(m.curves), 'sources': len(m.sources), 'controls': len(m.controls)}}
        return verdict('violation' if viol else 'ok', viol, c, dig, nontrivial=nt, runs=1, ngrams=grams, sample=sample)


class C14(StoreProp):
    id = 'C14'
    quick_runs = 8000
    thorough_runs = 120000
    profile = {'weights': WEIGHTS, 'n_ops': (8, 40),
               'restarts': [('pickle', 2), ('deepcopy', 2), ('dict', 2), ('json', 1), ('inp', 2)]}
    rule = ('one case = one seeded edit history of 8-40 operations (add junction/tank/reservoir/pipe/pump/valve/pattern/curve/source/control, extra demands, '
            'remove_* with and without with_control - half of them aimed at elements still in use so that they must be refused -, reassignment of link end '
            'nodes, pump speed pattern/curve, reservoir head pattern, tank volume curve, and restarts through pickle/deepcopy/dict/JSON/INP after which the '
            'history continues on the reloaded model) executed on the real model and on a mirror of plain dicts; after EVERY operation every name list, '
            'count, typed iterator, describe(), link end nodes, get_links_for_node (ALL/INLET/OUTLET), to_graph and every usage record is compared with '
            'the mirror; a refused operation must raise and leave the full state digest unchanged. non-trivial = >= 5 executed operations incl. a removal '
            'or restart; distinct = digest of the executed operation sequence')
    assumptions = ['operations are valid uses of the API: names are unique per registry and referenced elements exist (duplicate names silently replace elements '
                   'in WNTR; the statement does not cover that)',
                   'names the persistence formats do not keep are renamed in the mirror at a restart (simple controls -> "control k", INP sources -> "INPk")']


PROP = C14()
