"""C02 - every link obeys the head-flow law of its type and reported status."""
from .. import gen, e1, inv
from .c01 import InvProp


class C02(InvProp):
    id = 'C02'
    rule = ('one case = one generated world with pipes over 3 decades of size/roughness (minor loss 0 and >0, CV pipes), head pumps with '
            '1-, 2- and 3-point curves, power pumps, PRV/PSV/FCV/TCV driven into their statuses by reservoir-head patterns and controls '
            'on status/setting, both HW_approx values, plus seeded pause/rescue/evalorder faults and run / replace-the-points-of-a-pump-curve / reset / rerun histories; every reported row x link is checked against '
            'the reference law chosen by the reported status. non-trivial = at least two different (link kind, status) pairs other than open '
            'pipe were checked; distinct = canonical event-log digest')
    assumptions = ['law tolerance = min(1e-6, 20 x reached residual norm) in the unit of the equation plus 1e-10 relative to the heads',
                   'links with an isolated end node are skipped (their heads are reported as zero by design, see C09)',
                   'head pumps with more than 3 curve points are not generated (WNTR documents a regression fit there)']

    def make(self, rng, tier):
        cfg = dict(p_pump_source=0.5, p_power_pump=0.3, pump_points=[(1, 2), (2, 2), (3, 3)], n_valves=[(0, 2), (1, 4), (2, 3)],
                   p_cv=0.35, p_minor=0.4, p_res_pattern=0.5, steps=(3, 12), p_loop=0.6, p_parallel=0.3)
        scn = gen.gen_world(rng, cfg)
        scn['profile'] = 'c02'
        scn['run']['solver_options'] = {'MAXITER': 500}
        scn['run']['hw_approx'] = 'default' if rng.chance(0.5) else 'piecewise'
        valves = [l for l in scn['links'] if l['type'] == 'valve']
        if valves and rng.chance(0.6):
            gen.add_simple_time_controls(rng, scn, rng.irange(1, 3), targets=valves)
        if rng.chance(0.3):
            gen.add_simple_time_controls(rng, scn, rng.irange(1, 2))
        pumps = [l for l in scn['links'] if l['type'] == 'pump']
        if pumps and rng.chance(0.3):
            gen.add_simple_time_controls(rng, scn, 1, targets=pumps)
        e1.add_faults(rng, scn, p_pause=0.2)
        if rng.chance(0.3):
            scn['edits'] = e1.gen_edits(rng, scn)
        if rng.chance(0.2):
            gen.add_source_tcv(rng, scn)      # a TCV attached directly to a tank or reservoir
        if rng.chance(0.3):
            # rules with ELSE clauses on link statuses and valve settings (an ELSE action switches a link like any other action)
            gen.add_rules(rng, scn, rng.irange(1, 2), kinds=('time', 'clock'), p_else=1.0, p_compound=0.2)
        if rng.chance(0.15):
            gen.add_valve_bypass(rng, scn)    # a valve with a bypass pipe that a time control closes
        pipes_ = [l_ for l_ in scn['links'] if l_['type'] == 'pipe']
        if pipes_ and rng.chance(0.2):
            # a time control changes a pipe's minor-loss coefficient or roughness during the run (from zero, to zero, or between values)
            l_ = rng.pick(pipes_)
            attr = rng.pick(['minor_loss', 'minor_loss', 'roughness'])
            val = rng.pick([0.0, 5.0, 40.0]) if attr == 'minor_loss' else float(rng.pick([70, 100, 140]))
            hyd_ = scn['options']['hyd_step']
            tch = int(rng.irange(1, max(1, scn['options']['duration'] // hyd_ - 1)) * hyd_ + rng.pick([0, 0, 53]))
            scn['link_changes'] = [{'t': tch, 'link': l_['id'], 'attr': attr, 'value': val}]
            scn.pop('edits', None)      # the control leaves the pipe changed: a rerun on the same model would start from the changed value
        return scn

    def oracle(self, scn, out, c):
        return inv.c02(scn, out.tables, c, hw_approx=scn['run'].get('hw_approx', 'default'), rn=inv.rnorms(out))

    def nontrivial(self, scn, out, c):
        kinds = [k for k in c if k.startswith('c02.') and k != 'c02.pipe.open' and not k.startswith('c02.skipped')]
        return len(kinds) >= 2


PROP = C02()
