"""C01 - mass conservation at every node at every reported step (invariant per reported row)."""
from .. import gen, e1, inv, world
from ..oracles import V
from .base import Prop, verdict, bump, event_kinds, ngrams


class InvProp(Prop):
    """shared shape of the E1 invariant properties: generate, simulate with the scenario's faults, run oracle"""
    quick_runs = 2500
    thorough_runs = 60000
    chunk = 16
    tag = ''

    def oracle(self, scn, out, c):
        raise NotImplementedError

    def nontrivial(self, scn, out, c):
        return True

    def examine(self, scn, tier='quick'):
        c = {}
        out = e1.simulate(scn)
        e1.fired_counters(out, c)
        kind, v = e1.classify(out)
        dig = out.rec.digest()
        sims = out.rec.steps[-1]['t'] if out.rec.steps else 0
        if kind == 'stepcap' or kind == 'repo_exception':
            vv = self.attribute_exception(scn, out, v)
            if vv is None:
                return verdict('discard', [], c, dig, discard='repo_exception_other_property', sample=world.summary(scn))
            return verdict('violation', [vv], c, dig, sample=world.summary(scn))
        if kind.startswith('discard'):
            return verdict('discard', [], c, dig, discard=kind[8:], sim_seconds=sims, sample=world.summary(scn))
        rows_ = inv.rows(out.tables) if out.tables is not None else []
        if any(b_ <= a_ for a_, b_ in zip(rows_, rows_[1:])):
            # a time reported twice or going back: the per-row invariants are undefined; this is the violation
            return verdict('violation', [V(self.id.lower() + '.report_index_not_increasing', 'index', 'reported times %r' % (rows_[:14],))], c, dig,
                           sample=world.summary(scn))
        viol = self.oracle(scn, out, c)
        nt = self.nontrivial(scn, out, c)
        nruns = 1
        if not viol and scn.get('edits'):
            # run / edit / reset / rerun: the oracle is evaluated again on the second run against the edited scenario
            r = e1.edit_and_rerun(scn)
            nruns += 2
            if r is not None:
                second, s2 = r
                bump(c, 'fired.rerun_after_model_edit')
                if second.exc is None and second.tables is not None and second.tables.error_code is None:
                    v2 = self.oracle(s2, second, c)
                    for x in v2:
                        x['oracle'] = x['oracle'] + '.after_edit'
                        x['detail'] = 'after edits %r: %s' % ([e_['kind'] for e_ in scn['edits']], x['detail'])
                    viol = v2
                else:
                    bump(c, 'rerun_after_edit_nonconverged')
        return verdict('violation' if viol else 'ok', viol, c, dig, nontrivial=nt, sim_seconds=sims, runs=nruns,
                       ngrams=ngrams(event_kinds(out.rec, scn)), sample=world.summary(scn))

    def attribute_exception(self, scn, out, v):
        """an exception out of run_sim is a violation of this property only if the feature that raised is one the
        statement covers; default: not ours (C16 owns 'returns or says so')"""
        return None


class C01(InvProp):
    id = 'C01'
    rule = ('one case = one generated world (3-14 nodes; loops, parallel links, second source, links declared into and out of tanks, '
            'pumps/valves, 1-3 demand entries per junction with patterns/categories, negative (injection) entries, pattern_start, multiplier, DD/PDD, report grid or ALL) '
            'with seeded faults (pause+persist+restart, rescued solver fault, evaluator-order perturbation), leaks and closing links; every '
            'reported row is checked: junction balance, tank/reservoir demand = net inflow, DD demand = base*pattern*multiplier. '
            'non-trivial = the run has >= 3 reported rows and (a loop or parallel link or tank or leak or status change); '
            'distinct = canonical event-log digest')
    assumptions = ['balance tolerance = min(1e-6, 20 x the residual norm the solver actually reached) m3/s',
                   'worlds on which the fault-free run does not converge are discarded and counted']

    def make(self, rng, tier):
        scn = gen.gen_world(rng, dict(p_parallel=0.35, p_loop=0.6, p_res2=0.25, steps=(3, 14)))
        scn['profile'] = 'c01'
        scn['run']['solver_options'] = {'MAXITER': 500}
        if scn['patterns'] and rng.chance(0.15):
            scn['options']['default_pattern'] = rng.pick(sorted(scn['patterns']))
        if rng.chance(0.2):
            # an injection: a demand entry with a negative base value (a well or an inflow from a neighbouring system), alone at the
            # junction or next to ordinary demand categories, with or without a pattern
            j = rng.pick([n for n in scn['nodes'] if n['type'] == 'J'])
            pat = rng.pick(sorted(scn['patterns'])) if (scn['patterns'] and rng.chance(0.5)) else None
            entry = [-rng.uni(0.0003, 0.004, nd=6), pat, rng.pick([None, 'inflow'])]
            if rng.chance(0.5):
                j['demands'] = [entry]
            else:
                j['demands'].append(entry)
        if rng.chance(0.4):
            gen.add_leaks(rng, scn, rng.irange(1, 2), tanks=True)
        if rng.chance(0.4):
            gen.add_simple_time_controls(rng, scn, rng.irange(1, 3))
        if rng.chance(0.25):
            gen.add_level_controls(rng, scn, rng.irange(1, 2))
        e1.add_faults(rng, scn)
        if rng.chance(0.2):
            scn['edits'] = e1.gen_edits(rng, scn)
        if scn['patterns'] and rng.chance(0.15):
            scn['pattern_objects'] = True     # patterns added as Pattern objects that carry time options of their own
        if rng.chance(0.2):
            gen.add_source_tcv(rng, scn)      # a TCV attached directly to a tank or reservoir
        if rng.chance(0.2):
            gen.add_valve_bypass(rng, scn)    # a valve with a bypass pipe that a time control closes
        return scn

    def oracle(self, scn, out, c):
        return inv.c01(scn, out.tables, c, rn=inv.rnorms(out))

    def nontrivial(self, scn, out, c):
        rich = (len(scn['links']) >= len(scn['nodes'])) or any(n['type'] == 'T' for n in scn['nodes']) or scn['leaks'] or scn['controls']
        return len(inv.rows(out.tables)) >= 3 and bool(rich)


PROP = C01()
