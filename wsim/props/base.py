"""Common shape of a property check."""
import time

DOCUMENTED_EXC = (NotImplementedError,)


class Prop(object):
    id = None
    level = 'exploration'
    engine = 'E1'
    quick_runs = 1000
    thorough_runs = 20000
    rule = ''
    assumptions = []
    chunk = 8

    def runs(self, tier):
        return self.quick_runs if tier == 'quick' else self.thorough_runs

    def make(self, rng, tier):
        raise NotImplementedError

    def examine(self, scn, tier='quick'):
        raise NotImplementedError

    # replay files may be minimised by these generic scenario reductions (see shrink.py)
    shrink_passes = None


def verdict(outcome, violations=None, counters=None, digest=None, nontrivial=False, sim_seconds=0,
            runs=1, discard=None, ngrams=None, sample=None, exc=None, key=None):
    return {'outcome': outcome, 'violations': violations or [], 'counters': counters or {},
            'digest': digest, 'nontrivial': bool(nontrivial), 'sim_seconds': sim_seconds, 'runs': runs,
            'discard': discard, 'ngrams': ngrams or [], 'sample': sample, 'exc': exc, 'key': key}


def bump(c, k, n=1):
    c[k] = c.get(k, 0) + n


def event_kinds(rec, scn):
    """sequence of event kinds of a run, for the n-gram interleaving measure"""
    hyd = scn['options']['hyd_step']
    out = []
    prev_status = None
    prev_iso = None
    last_t = None
    for e in rec.events:
        if e[0] == 'solve':
            if e[4]:
                out.append('fault')
            elif last_t is not None and e[2] == last_t:
                out.append('resolve')
            last_t = e[2]
        elif e[0] == 'step':
            t = e[1]
            k = 'grid' if t % hyd == 0 else 'partial'
            if prev_status is not None and e[3] != prev_status:
                k += '+status'
            if prev_iso is not None and e[4] != prev_iso:
                k += '+iso'
            prev_status, prev_iso = e[3], e[4]
            out.append(k)
        elif e[0] == 'pause':
            out.append('pause')
        elif e[0] == 'abort':
            out.append('abort')
    return out


def ngrams(seq, n=3):
    return sorted(set('>'.join(seq[i:i + n]) for i in range(max(0, len(seq) - n + 1))))
