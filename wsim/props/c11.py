"""C11 - simulating never alters the model definition; reset and rerun reproduce results.
Run histories (run / reset / copy / reload / failed run / aborted run) with both simulators."""
import copy
import json
import os
import pickle
import warnings

from .. import gen, e1, inv, oracles, runsim, taps, world
from ..oracles import V
from .base import Prop, verdict, bump, event_kinds, ngrams

OPS = ['wntr', 'epanet', 'reset_wntr', 'reset_same_sim', 'copy_wntr', 'pickle_wntr', 'json_wntr', 'fail_wntr', 'abort_wntr', 'wntr_noreset']


def norm_dict(wn):
    d = wn.to_dict()
    d.pop('version', None)
    d.pop('comment', None)
    return json.loads(json.dumps(d, sort_keys=True, default=str))


def first_diff(a, b, path=''):
    if type(a) != type(b):
        return '%s: %r vs %r' % (path, a, b)
    if isinstance(a, dict):
        for k in sorted(set(a) | set(b)):
            if k not in a or k not in b:
                return '%s/%s: only on one side' % (path, k)
            r = first_diff(a[k], b[k], path + '/' + str(k))
            if r:
                return r
        return None
    if isinstance(a, list):
        if len(a) != len(b):
            return '%s: length %d vs %d' % (path, len(a), len(b))
        for i, (x, y) in enumerate(zip(a, b)):
            r = first_diff(x, y, '%s[%d]' % (path, i))
            if r:
                return r
        return None
    if a != b:
        return '%s: %r vs %r' % (path, a, b)
    return None


class C11(Prop):
    id = 'C11'
    quick_runs = 700
    thorough_runs = 20000
    chunk = 8
    rule = ('one case = one generated world (controls on status and valve settings, leaks, rules, PDD) and a seeded history of 3-7 operations from '
            '{run WNTR after reset with a new or with the SAME simulator object, run EPANET, deepcopy-and-run, pickle-and-run, JSON-reload-and-run, run with a failing solve (convergence_error '
            'either way), run aborted by an exception at solve k, run again without reset}; after EVERY operation the JSON-normalised to_dict '
            'of the model must equal the one taken before the first run; every WNTR run from the reset state (same object, copy, reload) must '
            'reproduce the first run (index and statuses exact, values to same-trajectory noise). non-trivial = the history contains >= 2 '
            'comparable WNTR runs and some control/leak/tank activity; distinct = digest of (event log of first run, history)')
    assumptions = ['EPANET refusing a generated world (EpanetException) still must leave the definition unchanged',
                   'results of reloaded models are compared with rtol 1e-6/atol 1e-7 (+ conditioning slack on flows): same cold start, same trajectory']

    def make(self, rng, tier):
        cfg = dict(steps=(3, 10), n_valves=[(0, 3), (1, 3), (2, 1)], p_pdd=0.3)
        scn = gen.gen_world(rng, cfg)
        scn['profile'] = 'c11'
        scn['run']['solver_options'] = {'MAXITER': 500}
        valves = [l for l in scn['links'] if l['type'] == 'valve']
        if valves and rng.chance(0.7):
            gen.add_simple_time_controls(rng, scn, rng.irange(1, 2), targets=valves)
        if rng.chance(0.6):
            gen.add_simple_time_controls(rng, scn, rng.irange(1, 3))
        if rng.chance(0.4):
            gen.add_level_controls(rng, scn, rng.irange(1, 2))
        if rng.chance(0.4):
            gen.add_rules(rng, scn, rng.irange(1, 2))
        if rng.chance(0.4):
            gen.add_leaks(rng, scn, 1)
        pumps = [l for l in scn['links'] if l['type'] == 'pump']
        if pumps and rng.chance(0.3):
            gen.add_simple_time_controls(rng, scn, 1, targets=pumps)
        if rng.chance(0.2):
            # report steps the simulator has to adjust for itself: smaller than the hydraulic step, or larger but not a multiple of it
            hyd_ = scn['options']['hyd_step']
            scn['options']['report_step'] = int(rng.pick([hyd_ // 2, hyd_ * 3 // 2, hyd_ // 3]))
        n = rng.irange(3, 7)
        hist = ['wntr']
        for _ in range(n - 1):
            hist.append(rng.wpick([('epanet', 2), ('reset_wntr', 3), ('reset_same_sim', 3), ('copy_wntr', 2), ('pickle_wntr', 2), ('json_wntr', 2),
                                   ('fail_wntr', 2), ('abort_wntr', 2), ('wntr_noreset', 1)]))
        if 'epanet' in hist and scn['options'].get('report_step') == 'ALL':
            scn['options']['report_step'] = scn['options']['hyd_step']     # the INP writer cannot print 'ALL'
        scn['history'] = [{'op': h, 'k': rng.irange(0, 8), 'ce': rng.chance(0.5), 'how': rng.pick(['timelimit', 'maxiter', 'singular']),
                           'noise': rng.irange(0, 40)} for h in hist]
        if scn['patterns'] and rng.chance(0.15):
            scn['pattern_objects'] = True     # patterns added as Pattern objects that carry time options of their own
        if any(c_['kind'] == 'rule' for c_ in scn['controls']) and rng.chance(0.3):
            scn['rule_alias'] = True     # rules registered under a key that differs from the name they carry
        return scn

    def shrink_candidates(self, scn):
        for i in range(len(scn.get('history', []))):
            if i == 0:
                continue
            s = copy.deepcopy(scn)
            del s['history'][i]
            yield 'drop op %d' % i, s

    def examine(self, scn, tier='quick'):
        import wntr
        c = {}
        viol = []
        wn = world.build(scn)
        d0 = norm_dict(wn)
        first = None
        first_rec = None
        ncomp = 0
        sims = 0
        nruns = 0
        hist_sig = []

        def check_dict(w, label):
            d = norm_dict(w)
            df = first_diff(d0, d)
            if df:
                field = df.split(':')[0].split('/')[-1]
                viol.append(V('c11.definition_changed', '%s.%s' % (label, field), 'after %s: %s' % (label, df[:300])))

        holder = {}     # the simulator object of the runs on `wn` itself; 'reset_same_sim' reuses it

        def run(w, plan=None, ce=False, label='wntr', compare=True, same_sim=False):
            nonlocal first, first_rec, ncomp, sims, nruns
            s2 = scn
            if ce:
                s2 = world.clone(scn)
                s2['run']['convergence_error'] = True
            if w is wn and not same_sim:
                holder.clear()          # a fresh simulator object, remembered for a later 'reset_same_sim'
            out = runsim.run_world(s2, plan=plan, wn=w, sim_holder=(holder if w is wn else None))
            nruns += 1
            out.tables = e1.concat(out.parts) if out.parts else None
            sims += out.rec.steps[-1]['t'] if out.rec.steps else 0
            for k, n in out.rec.fired.items():
                bump(c, 'fired.' + k, n)
            return out

        for h in scn['history']:
            op = h['op']
            hist_sig.append(op)
            if h.get('noise'):
                e1.perturb_evalorder(h['noise'])
            if op in ('wntr', 'reset_wntr', 'reset_same_sim'):
                wn.reset_initial_values()
                if op == 'reset_same_sim' and holder.get('sim') is not None:
                    bump(c, 'fired.rerun.same_simulator_object')
                out = run(wn, same_sim=(op == 'reset_same_sim'))
                check_dict(wn, op)
                if out.exc is not None and not isinstance(out.exc, NotImplementedError):
                    if isinstance(out.exc, taps.WsimStepCap):
                        viol.append(V('terminates', 'stepcap', str(out.exc)))
                    return verdict('violation' if viol else 'discard', viol, c, out.rec.digest(), discard='repo_exception_other_property', sample=world.summary(scn))
                if out.exc is not None or out.tables is None or out.tables.error_code is not None:
                    return verdict('violation' if viol else 'discard', viol, c, out.rec.digest(), discard='nonconverged', sample=world.summary(scn))
                if first is None:
                    first, first_rec = out.tables, out.rec
                else:
                    ncomp += 1
                    viol += self.same(scn, out.tables, first, 'rerun_after_reset')
            elif op == 'wntr_noreset':
                out = run(wn)
                check_dict(wn, op)
            elif op == 'epanet':
                with runsim.Scratch() as d:
                    try:
                        with warnings.catch_warnings():
                            warnings.simplefilter('always', append=True)
                            sim = wntr.sim.EpanetSimulator(wn)
                            sim.run_sim(file_prefix=os.path.join(d, 'temp'))
                        bump(c, 'epanet.ran')
                    except Exception as e:  # noqa
                        bump(c, 'epanet.raised.' + type(e).__name__)
                nruns += 1
                check_dict(wn, op)
            elif op in ('copy_wntr', 'pickle_wntr', 'json_wntr'):
                wn.reset_initial_values()
                if op == 'copy_wntr':
                    w2 = copy.deepcopy(wn)
                elif op == 'pickle_wntr':
                    w2 = pickle.loads(pickle.dumps(wn))
                else:
                    try:
                        with runsim.Scratch() as d:
                            fn = os.path.join(d, 'm.json')
                            wntr.network.write_json(wn, fn)
                            w2 = wntr.network.read_json(fn)
                    except Exception as e:  # noqa  (a model that cannot be reloaded is C13's subject, not C11's)
                        bump(c, 'json_reload_raised.' + type(e).__name__)
                        continue
                bump(c, 'fired.restart.' + op.split('_')[0])
                out = run(w2)
                check_dict(wn, op + '.original')
                if out.exc is None and out.tables is not None and out.tables.error_code is None and first is not None:
                    ncomp += 1
                    viol += self.same(scn, out.tables, first, op)
                elif first is not None:
                    viol.append(V('c11.equal_model_fails', op, 'the %s of a model that runs does not run: %r' % (op, out.exc)))
            elif op == 'fail_wntr':
                wn.reset_initial_values()
                out = run(wn, plan=[{'kind': h['how'], 'at_solve': h['k'], 'backup': False}], ce=h['ce'])
                check_dict(wn, op)
            elif op == 'abort_wntr':
                wn.reset_initial_values()
                out = run(wn, plan=[{'kind': 'abort', 'at_solve': h['k'], 'backup': False}])
                check_dict(wn, op)
            if len(viol) >= 3:
                break
        active = first_rec is not None and any(s['status'] != first_rec.steps[0]['status'] or s['leak_on'] for s in first_rec.steps)
        tank = any(n['type'] == 'T' for n in scn['nodes'])
        dig = None
        if first_rec is not None:
            import hashlib
            dig = hashlib.sha256((first_rec.digest() + '|' + ','.join(hist_sig)).encode()).hexdigest()[:20]
        return verdict('violation' if viol else 'ok', viol, c, dig, nontrivial=(ncomp >= 1 and (active or tank)), sim_seconds=sims, runs=nruns,
                       ngrams=ngrams(hist_sig, 2), sample=dict(world.summary(scn), history=hist_sig))

    def same(self, scn, tab, first, label):
        full = inv.rows(first)
        got = inv.rows(tab)
        if got != full:
            return [V('c11.rerun_index', label, 'index %r vs first run %r' % (got[:12], full[:12]))]
        v = oracles.compare_tables(tab, first, full, label='c11.rerun', keys=oracles.SLACK_KEYS,
                                   col_atol=oracles.flow_col_atol(scn, first, full))
        for x in v:
            x['sig'] = x['sig'] + '.' + label
        return v


PROP = C11()
