"""C05 - reported states are consistent with every conditional simple control (invariant per reported row) and
tank-level thresholds are met by a partial step (history check over consecutive accepted steps)."""
import math

from .. import gen, e1, inv, world
from .. import refmodel as rm
from ..oracles import V
from .base import Prop, verdict, bump, event_kinds, ngrams

GUARD = 1e-6


def cond_value(cond, nd_row, nm):
    """value of the condition's source on a reported row"""
    if cond['t'] == 'level':
        tid = cond['tank']
        if cond.get('attr', 'level') == 'head':
            return float(nd_row['head'][tid])
        return float(nd_row['pressure'][tid])
    return float(nd_row['pressure'][cond['node']])


def truth(cond, x):
    """True / False / None (inside the guard band; tank conditions treat < as <= and > as >=)"""
    thr = float(cond['thr'])
    if abs(x - thr) <= GUARD:
        return None
    if cond['rel'] in ('<', '<='):
        return x < thr
    return x > thr


class C05(Prop):
    id = 'C05'
    quick_runs = 3500
    thorough_runs = 50000
    chunk = 16
    rule = ('one case = one generated world with 1-2 tanks, pumps/CV pipes/valves and 1-6 simple conditional controls (IF TANK level|head '
            'ABOVE|BELOW x, IF NODE pressure ABOVE|BELOW p; hysteresis pairs, two thresholds crossed in one step, thresholds at the current level, '
            'conflicting controls with different priorities) whose thresholds sit within a few steps of tank flow around the initial level; faults: '
            'pause/persist/restart, rescued solver faults, evaluator-order perturbation, small trial limits. At every reported row each control '
            'whose condition is true beyond a 1e-6 guard band must see its commanded status/setting on the target (exceptions as stated: own '
            'check valve, pump shut-off, adjacent tank, conflicting true control of equal or higher priority); over consecutive accepted steps a '
            'tank-level control that switched its target must not have overshot its threshold by more than 2 s of tank flow. non-trivial = some '
            'control acted after t=0; distinct = event-log digest')
    assumptions = ['targets also driven by time controls or rules are excluded (the exception list of the statement does not cover them)',
                   'controls whose source node is isolated at the row are skipped and counted',
                   'runs that do not converge (e.g. oscillating pressure controls exceeding the trial limit) are discarded and counted']

    def make(self, rng, tier):
        cfg = dict(n_tanks=[(1, 5), (2, 2)], steps=(6, 30), p_pump_source=0.45, p_cv=0.3, n_valves=[(0, 5), (1, 2)], nj=(2, 7),
                   hyd_steps=[600, 900, 1800, 3600, 3600, 7200], p_pdd=0.15, p_report_all=0.6)
        scn = gen.gen_world(rng, cfg)
        scn['profile'] = 'c05'
        scn['run']['solver_options'] = {'MAXITER': 500}
        o = scn['options']
        hyd = o['hyd_step']
        tanks = [n for n in scn['nodes'] if n['type'] == 'T']
        juncs = [n for n in scn['nodes'] if n['type'] == 'J']
        tq = scn['meta']['total_demand']
        links = [l for l in scn['links'] if not (l['type'] == 'pipe' and l['a'] == 'R1' or l['b'] == 'R1') or l['type'] == 'pump']
        if not links:
            links = list(scn['links'])
        n = rng.irange(1, 6)
        H0 = scn['meta']['H0']
        i = 0
        while i < n:
            l = rng.pick(links)
            name = 'c%d' % (len(scn['controls']) + 1)
            pr = 3 if rng.chance(0.7) else rng.irange(0, 6)

            def act(val=None):
                if l['type'] == 'valve' and l.setdefault('_c05_attr', 'setting' if rng.chance(0.6) else 'status') == 'setting':
                    base = l['setting'] if l['setting'] > 0 else 5.0
                    return {'link': l['id'], 'attr': 'setting', 'value': float(round(base * rng.pick([0.5, 0.8, 1.5, 2.0]), 6))}
                return {'link': l['id'], 'attr': 'status', 'value': val or rng.pick(['OPEN', 'CLOSED'])}
            if rng.chance(0.7):
                tk = rng.pick(tanks)
                area = math.pi * tk['diam'] ** 2 / 4.0
                scale = max(tq * hyd / area, 0.005)
                attr = 'level' if rng.chance(0.8) else 'head'
                off = tk['elev'] if attr == 'head' else 0.0
                lo = max(tk['min'] + 0.01, tk['init'] - rng.uni(0.2, 4.0) * scale)
                hi = min(tk['max'] - 0.01, tk['init'] + rng.uni(0.2, 4.0) * scale)
                if rng.chance(0.1):
                    lo = tk['init']
                lo, hi = round(lo + off, 4), round(hi + off, 4)
                mode = rng.wpick([('pair', 5), ('below', 2), ('above', 2), ('two_same_side', 2)])
                if mode == 'pair':
                    scn['controls'].append({'name': name, 'kind': 'simple', 'priority': pr, 'cond': {'t': 'level', 'tank': tk['id'], 'attr': attr, 'rel': rng.pick(['<', '<=']), 'thr': lo}, 'then': [act('OPEN')]})
                    a2 = act('CLOSED')
                    scn['controls'].append({'name': name + 'b', 'kind': 'simple', 'priority': pr, 'cond': {'t': 'level', 'tank': tk['id'], 'attr': attr, 'rel': rng.pick(['>', '>=']), 'thr': hi}, 'then': [a2]})
                    i += 2
                elif mode == 'two_same_side':
                    # two thresholds that one hydraulic step can cross together
                    side = rng.pick(['<', '>'])
                    base = lo if side == '<' else hi
                    d = rng.uni(0.05, 0.6) * scale
                    l2 = rng.pick(links)
                    scn['controls'].append({'name': name, 'kind': 'simple', 'priority': pr, 'cond': {'t': 'level', 'tank': tk['id'], 'attr': attr, 'rel': side, 'thr': round(base, 4)}, 'then': [act()]})
                    scn['controls'].append({'name': name + 'b', 'kind': 'simple', 'priority': pr, 'cond': {'t': 'level', 'tank': tk['id'], 'attr': attr, 'rel': side, 'thr': round(base - d if side == '<' else base + d, 4)},
                                            'then': [{'link': l2['id'], 'attr': 'status', 'value': rng.pick(['OPEN', 'CLOSED'])}]})
                    i += 2
                else:
                    scn['controls'].append({'name': name, 'kind': 'simple', 'priority': pr, 'cond': {'t': 'level', 'tank': tk['id'], 'attr': attr, 'rel': '<' if mode == 'below' else '>', 'thr': lo if mode == 'below' else hi}, 'then': [act()]})
                    i += 1
            else:
                j = rng.pick(juncs)
                p0 = H0 - j['elev']
                thr = round(p0 + rng.uni(-12.0, 4.0), 3)
                scn['controls'].append({'name': name, 'kind': 'simple', 'priority': pr, 'cond': {'t': 'pressure', 'node': j['id'], 'rel': rng.pick(['<', '>', '<=', '>=']), 'thr': thr}, 'then': [act()]})
                i += 1
        # a valve commanded through its setting by some controls and through its status by another: one target, ordered by priority
        # (all controls on that valve get distinct priorities, so the statement's conflict clause decides every meeting)
        mixed = [l for l in scn['links'] if l['type'] == 'valve' and l.get('_c05_attr') == 'setting' and any(c['then'][0]['link'] == l['id'] for c in scn['controls'])]
        if mixed and tanks and rng.chance(0.3):
            l = rng.pick(mixed)
            tk = rng.pick(tanks)
            thr = round(tk['min'] + (tk['max'] - tk['min']) * rng.uni(0.15, 0.85), 4)
            scn['controls'].append({'name': 'c%dm' % (len(scn['controls']) + 1), 'kind': 'simple', 'priority': 3,
                                    'cond': {'t': 'level', 'tank': tk['id'], 'attr': 'level', 'rel': rng.pick(['<', '>']), 'thr': thr},
                                    'then': [{'link': l['id'], 'attr': 'status', 'value': rng.pick(['CLOSED', 'CLOSED', 'OPEN'])}]})
            own = [c for c in scn['controls'] if c['then'][0]['link'] == l['id']]
            prs = [0, 1, 2, 3, 4, 5, 6]
            rng.shuffle(prs)
            for c_, p_ in zip(own[:7], prs):
                c_['priority'] = p_
            for c_ in own[7:]:
                scn['controls'].remove(c_)
        # a leaking tank: its net inflow (which decides when a level threshold is crossed) then differs from the flow of its links
        if tanks and rng.chance(0.2):
            tk = rng.pick(tanks)
            scn['leaks'].append({'node': tk['id'], 'area': rng.logu(2e-4, 4e-3, 4), 'cd': rng.pick([0.75, 0.6]), 'start': 0 if rng.chance(0.6) else int(hyd * rng.irange(1, 3)),
                                 'end': None, 'removed': False})
        # unrelated timed events on links that no conditional control commands (interleaving diversity only)
        commanded = set(c['then'][0]['link'] for c in scn['controls'])
        free = [l for l in gen.plain_pipes(scn) if l['id'] not in commanded]
        if free and rng.chance(0.3):
            gen.add_simple_time_controls(rng, scn, rng.irange(1, 2), targets=free, p_priority=0.4)
        if rng.chance(0.1):
            o['trials'] = rng.pick([3, 5, 10])
        for l in scn['links']:
            l.pop('_c05_attr', None)
        e1.add_faults(rng, scn, p_pause=0.35, p_rescue=0.1, p_evalorder=0.25)
        return scn

    def examine(self, scn, tier='quick'):
        c = {}
        out = e1.simulate(scn)
        e1.fired_counters(out, c)
        kind, v = e1.classify(out)
        dig = out.rec.digest()
        sims = out.rec.steps[-1]['t'] if out.rec.steps else 0
        if kind in ('stepcap', 'repo_exception'):
            return verdict('discard', [], c, dig, discard='repo_exception_other_property', sample=world.summary(scn))
        if kind.startswith('discard'):
            return verdict('discard', [], c, dig, discard=kind[8:], sim_seconds=sims, sample=world.summary(scn))
        viol = self.oracle(scn, out, c)
        nt = c.get('c05.acted_after_0', 0) > 0
        return verdict('violation' if viol else 'ok', viol, c, dig, nontrivial=nt, sim_seconds=sims,
                       ngrams=ngrams(event_kinds(out.rec, scn)), sample=world.summary(scn))

    def oracle(self, scn, out, c):
        viol = []
        nm = world.node_map(scn)
        lm = world.link_map(scn)
        conds = [x for x in scn['controls'] if x['kind'] == 'simple' and x['cond']['t'] in ('level', 'pressure')]
        other = set()
        for x in scn['controls']:
            if x not in conds:
                for a in x['then'] + x.get('else', []):
                    other.add((a['link'], a['attr']))
        tank_adj = set(l['id'] for l in scn['links'] if nm[l['a']]['type'] == 'T' or nm[l['b']]['type'] == 'T')
        tables = out.tables
        rows_ = inv.rows(tables)
        if any(b_ <= a_ for a_, b_ in zip(rows_, rows_[1:])):
            return [V('c05.report_index_not_increasing', 'index', 'reported times %r' % (rows_[:14],))]
        for t in rows_:
            nd, lk = inv.row_view(tables, t)
            iso = inv.ref_isolated(scn, lk['status'])
            vals = []
            for x in conds:
                src = x['cond'].get('node') or x['cond'].get('tank')
                if src in iso:
                    # a junction that is cut off reports zero pressure (C09); the condition is judged on that reported state like any other
                    bump(c, 'c05.isolated_source_rows')
                vals.append(truth(x['cond'], cond_value(x['cond'], nd, nm)))
            for x, tr in zip(conds, vals):
                a = x['then'][0]
                tg = (a['link'], a['attr'])
                if tg in other:
                    continue
                if tr is None:
                    bump(c, 'c05.skipped_knife_edge')
                    continue
                if not tr:
                    continue
                bump(c, 'c05.true_conditions')
                l = lm[a['link']]
                if a['attr'] == 'status':
                    got = int(lk['status'][a['link']])
                    want = rm.action_value(a)
                    ok = got == want
                    if l['type'] == 'valve' and want == 1 and got == 1:
                        ok = True
                    if not ok and want == 1 and got == 0 and (l.get('cv') or l['type'] == 'pump' or l['id'] in tank_adj):
                        # held closed by its own check valve / pump shut-off / adjacent tank at a limit
                        bump(c, 'c05.exception_held_closed')
                        ok = True
                else:
                    got = float(lk['setting'][a['link']])
                    want = float(a['value'])
                    ok = abs(got - want) <= 1e-9 * max(1.0, abs(want))
                if ok:
                    continue
                # conflicting triggered control of equal or higher priority commanding what is reported
                excused = False
                for y, try_ in zip(conds, vals):
                    if y is x:
                        continue
                    b = y['then'][0]
                    if b['link'] != tg[0] or try_ is False:
                        continue
                    if y.get('priority', 3) < x.get('priority', 3):
                        continue
                    if b['attr'] != a['attr']:
                        # a valve's setting and status are one target: commanding a setting makes the valve active
                        excused = True
                        continue
                    bv = rm.action_value(b)
                    if (a['attr'] == 'status' and int(bv) == got) or (a['attr'] == 'setting' and abs(bv - got) <= 1e-9 * max(1.0, abs(bv))):
                        excused = True
                if excused:
                    bump(c, 'c05.exception_conflict')
                    continue
                kind = x['cond']['t'] + ('.' + x['cond'].get('attr', 'level') if x['cond']['t'] == 'level' else '')
                viol.append(V('c05.condition_true_target_not_commanded', kind + '.' + a['attr'],
                              't=%d control %s: %s %s %s holds (value %.9g) but %s.%s is %r, commanded %r' %
                              (t, x['name'], kind, x['cond']['rel'], x['cond']['thr'], cond_value(x['cond'], nd, nm), a['link'], a['attr'], got, want)))
            if len(viol) > 5:
                return viol
        # ---- partial step: a tank-level control that switched its target did not overshoot its threshold
        steps = out.rec.steps
        for s0, s1 in zip(steps, steps[1:]):
            for x in conds:
                if x['cond']['t'] != 'level':
                    continue
                a = x['then'][0]
                tid = x['cond']['tank']
                tk = nm[tid]
                off = tk['elev'] if x['cond'].get('attr', 'level') == 'head' else 0.0
                l0 = s0['nodes'][tid]['level'] + off
                l1 = s1['nodes'][tid]['level'] + off
                t0_, t1_ = truth(x['cond'], l0), truth(x['cond'], l1)
                if t1_ is not True or t0_ is not False:
                    continue
                if a['attr'] == 'status':
                    before, after, want = s0['links'][a['link']]['status'], s1['links'][a['link']]['status'], rm.action_value(a)   # effective (reported) status: a command that changes nothing needs no partial step
                    # the control itself switched it: commanded (user) status and effective status both changed to the commanded value
                    switched = (before != want and after == want and s0['links'][a['link']]['user'] != want and s1['links'][a['link']]['user'] == want)
                    l_ = lm[a['link']]
                    if want == 1 and (l_.get('cv') or l_['type'] in ('pump', 'valve') or l_['id'] in tank_adj):
                        # commanded open, but the link's own check valve / pump / valve / tank logic decides when it effectively opens
                        # (the command itself changes nothing visible while the link is held closed, so it needs no partial step)
                        switched = False
                else:
                    before, after, want = s0['links'][a['link']].get('setting'), s1['links'][a['link']].get('setting'), float(a['value'])
                    switched = before is not None and abs(before - want) > 1e-12 and abs(after - want) <= 1e-9 * max(1.0, abs(want))
                if not switched:
                    continue
                bump(c, 'c05.level_crossings_acted')
                if s1['t'] > 0:
                    bump(c, 'c05.acted_after_0')
                if (s1['t'] - s0['t']) < scn['options']['hyd_step'] or s1['t'] % scn['options']['hyd_step']:
                    bump(c, 'c05.partial_steps_at_crossing')
                q = abs(s0['nodes'][tid]['demand'])
                area = rm.tank_area_at(scn, tk, s1['nodes'][tid]['level'])
                allowed = 2.0 * q / area + 1e-6
                over = abs(l1 - float(x['cond']['thr']))
                if over > allowed:
                    viol.append(V('c05.threshold_overshot', 'level', 'control %s: tank %s %s %s first holds at t=%g with level %.6f: %.4g beyond the threshold, '
                                  '2 s of tank flow is %.3g (previous step t=%g level %.6f, hydraulic step %d)' %
                                  (x['name'], tid, x['cond']['rel'], x['cond']['thr'], s1['t'], l1, over, allowed, s0['t'], l0, scn['options']['hyd_step'])))
            if len(viol) > 5:
                break
        # pressure controls acting after t=0 count as activity too
        for s0, s1 in zip(steps, steps[1:]):
            if s0['status'] != s1['status']:
                bump(c, 'c05.status_changes')
        return viol


PROP = C05()
