"""C10 - pausing, pickling and restarting a simulation equals running it uninterrupted.
Fault enumeration over crash points: every pause time on the hydraulic grid x persistence mode."""
from .. import gen, e1, inv, oracles, runsim, world
from ..oracles import V
from ..rng import Rng, derive
from .base import Prop, verdict, bump, event_kinds, ngrams

PERSIST = ['none', 'pickle', 'deepcopy']


class C10(Prop):
    id = 'C10'
    level = 'fault_enumeration'
    quick_runs = 400
    thorough_runs = 6000
    chunk = 4
    exhaustive_per_world = True
    rule = ('one case = one generated world (tanks, time/clock/level controls, rules, leaks; report grid or ALL; <= 24 hydraulic steps); '
            'its uninterrupted run is the reference; EVERY pause time on the hydraulic grid x persistence {none, pickle, deepcopy} is '
            'executed as: run to the pause, persist the model, continue with a NEW WNTRSimulator; plus 2 seeded multi-pause histories '
            '(2-4 pauses). The concatenated tables must have the uninterrupted index, equal statuses/settings and values within the '
            'restart slack, and simulated time must never go back below the restart time. non-trivial = the world has a tank not at rest or '
            'a control/rule/leak that acts after the first step; distinct = event-log digest of the uninterrupted run')
    assumptions = ['restart comparisons use solver-tolerance slack (heads 1e-4 m, flows 1e-6 m3/s + 1e-4 relative + conditioning term): a restarted '
                   'run starts Newton from a cold point and lands elsewhere inside the TOL ball (DESIGN.md 3.4)',
                   'worlds whose uninterrupted run does not converge are discarded']

    def make(self, rng, tier):
        if rng.chance(0.2):
            # a guest world from the generator of another property (pressure controls and hysteresis pairs, pumps into tanks and multi-link
            # tanks, leak windows with cut-off schedules, isolation swaps): every state those features keep must survive the restart too
            import importlib
            guest = rng.pick(['c05', 'c06', 'c08', 'c09'])
            scn = importlib.import_module('wsim.props.' + guest).PROP.make(rng, tier)
            scn['faults'] = []
            scn.pop('edits', None)
            scn['guest_of'] = guest.upper()
            scn['profile'] = 'c10'
            scn['pause_enum'] = {'salt': rng.irange(0, 10 ** 9)}
            return scn
        cfg = dict(steps=(3, 14) if tier == 'quick' else (3, 24), n_tanks=[(0, 2), (1, 5), (2, 1)], p_pdd=0.2,
                   hyd_steps=[600, 900, 1800, 3600, 7200])
        scn = gen.gen_world(rng, cfg)
        scn['profile'] = 'c10'
        scn['run']['solver_options'] = {'MAXITER': 500}
        if rng.chance(0.7):
            gen.add_simple_time_controls(rng, scn, rng.irange(1, 3))
        if rng.chance(0.5):
            gen.add_level_controls(rng, scn, rng.irange(1, 2))
        if rng.chance(0.4):
            gen.add_rules(rng, scn, rng.irange(1, 2))
        if rng.chance(0.3):
            gen.add_leaks(rng, scn, 1)
        scn['pause_enum'] = {'salt': rng.irange(0, 10 ** 9)}
        return scn

    def focus(self, scn, violation):
        pr = violation.get('pauserun')
        if not pr:
            return None
        s = world.clone(scn)
        s['pauseruns'] = [pr]
        s.pop('pause_enum', None)
        return s

    def pauseruns(self, scn):
        if 'pauseruns' in scn:
            return scn['pauseruns']
        o = scn['options']
        hyd = o['hyd_step']
        grid = [k * hyd for k in range(1, o['duration'] // hyd + 1) if k * hyd < o['duration']]
        out = []
        r0 = Rng(derive('c10grid', (scn.get('pause_enum') or {}).get('salt', 0)))
        if len(grid) > 16:
            grid = sorted(set([grid[0], grid[-1]] + [r0.pick(grid) for _ in range(14)]))     # long guest worlds: 16 pause times
        for t in grid:
            for p in PERSIST:
                out.append({'pauses': [t], 'persist': p})
        # time 0 is a point of the hydraulic grid too: a first part with duration 0 (only the initial solution), then the rest
        if o['duration'] > 0:
            out.append({'pauses': [0], 'persist': PERSIST[(scn.get('pause_enum') or {}).get('salt', 0) % len(PERSIST)]})
            if grid:
                out.append({'pauses': [0, grid[len(grid) // 2]], 'persist': 'pickle'})
        r = Rng(derive('c10enum', (scn.get('pause_enum') or {}).get('salt', 0)))
        if len(grid) >= 2:
            for _ in range(2):
                k = r.irange(2, min(4, len(grid)))
                ps = sorted(set(r.pick(grid) for _ in range(k)))
                out.append({'pauses': ps, 'persist': r.pick(PERSIST)})
        return out

    def examine(self, scn, tier='quick'):
        c = {}
        base = world.clone(scn)
        base['faults'] = []
        ref = e1.simulate(base)
        kind, v = e1.classify(ref)
        dig = ref.rec.digest()
        if kind in ('stepcap', 'repo_exception'):
            return verdict('discard', [], c, dig, discard='reference_' + kind, sample=world.summary(scn))
        if ref.rec.n_solver_calls > 600:
            # e.g. a rule that flips a link at every 60 s rule step for 18 h: every one of the ~40 paused runs would repeat ~2000 solves
            return verdict('discard', [], c, dig, discard='too_many_solves_for_an_enumeration', sample=world.summary(scn))
        if kind.startswith('discard'):
            return verdict('discard', [], c, dig, discard=kind[8:], sample=world.summary(scn))
        full = inv.rows(ref.tables)
        viol = []
        nruns = 1
        sims = ref.rec.steps[-1]['t'] if ref.rec.steps else 0
        col = oracles.flow_col_atol(scn, ref.tables, full)
        for pr in self.pauseruns(scn):
            out = runsim.run_world(base, pauses=pr['pauses'], persist=pr['persist'])
            out.tables = e1.concat(out.parts) if out.parts else None
            nruns += 1
            bump(c, 'fired.pause.' + pr['persist'], len(pr['pauses']))
            bump(c, 'pause_points')
            vv = self.judge(scn, pr, out, ref, full, col, c)
            for x in vv:
                x['pauserun'] = pr
            viol += vv
            sims += out.rec.steps[-1]['t'] if out.rec.steps else 0
            if len(viol) >= 3 and 'pauseruns' not in scn:
                break
        acts = any(s['status'] != ref.rec.steps[0]['status'] or s['leak_on'] != ref.rec.steps[0]['leak_on'] for s in ref.rec.steps[1:])
        moving = any(abs(ref.rec.steps[-1]['nodes'][n['id']]['level'] - n['init']) > 1e-3 for n in scn['nodes'] if n['type'] == 'T') if ref.rec.steps else False
        return verdict('violation' if viol else 'ok', viol, c, dig, nontrivial=(acts or moving) and nruns > 1, sim_seconds=sims, runs=nruns,
                       ngrams=ngrams(event_kinds(ref.rec, scn)), sample=world.summary(scn))

    def judge(self, scn, pr, out, ref, full, col, c):
        viol = []
        tag = pr['persist'] + ('.multi' if len(pr['pauses']) > 1 else '')
        if out.exc is not None:
            return [V('c10.continued_run_raises', '%s@%s' % (type(out.exc).__name__, out.exc_site), (out.exc_tb or '')[-600:])]
        if out.rec.time_violation is not None:
            viol.append(V('c10.time_goes_back', tag, 'sim_time %r solved after restart at %r' % out.rec.time_violation))
        if out.tables.error_code is not None:
            fragile = (scn['options'].get('demand_model') == 'PDD' or any(l['type'] in ('pump', 'valve') or l.get('cv') for l in scn['links']))
            if fragile:
                # a continued run re-creates the model and starts Newton from a cold point; on worlds with status logic (valves, pumps,
                # check valves) or PDD it may not converge where the warm-started uninterrupted run does.  The simulator says so
                # (error_code, warning - C16); there are no results to compare.  Counted, not decided.
                bump(c, 'c10.skipped_continued_run_nonconverged')
                return viol
            # a tank standing on a level limit whose links carry (next to) no flow: the tank's own close-at-the-limit / reopen controls decide
            # on the sign of a flow that is zero up to rounding and may flip-flop until the trial limit - in either run, by luck of the last
            # digits (seen with the thorough tier: a control closes the zone's feed at the last step, the tank is full, nobody draws).
            # The simulator says so (C16); counted, not decided.
            at_limit = False
            try:
                lv = ref.tables.node['pressure']
                for n_ in scn['nodes']:
                    if n_['type'] == 'T':
                        x_ = lv[n_['id']].values
                        if ((x_ >= n_['max'] - 1e-3) | (x_ <= n_['min'] + 1e-3)).any():
                            at_limit = True
            except Exception:  # noqa
                at_limit = False
            if at_limit and any('Exceeded maximum number of trials' in w_ for w_ in out.warnings):
                bump(c, 'c10.skipped_trial_limit_with_a_tank_on_its_limit')
                return viol
            viol.append(V('c10.continued_run_fails', tag, 'a part of the paused run did not converge while the uninterrupted run does'))
            return viol
        # each part's rows
        idx = []
        for p in out.parts:
            idx.append([int(t) for t in p.node['head'].index])
        flat = [t for part in idx for t in part]
        hyd_ = scn['options']['hyd_step']
        if flat != full and len(flat) == len(full) and all(a_ == b_ or (abs(a_ - b_) <= 1 and a_ % hyd_ and b_ % hyd_) for a_, b_ in zip(flat, full)):
            # an event instant off the hydraulic grid placed one second apart (see oracles.solver_slack): the same rows otherwise
            bump(c, 'c10.event_instant_one_second_apart')
            full = [b_ for a_, b_ in zip(flat, full) if a_ == b_]
        elif flat != full:
            dup = sorted(set(t for t in flat if flat.count(t) > 1))
            viol.append(V('c10.index', tag, 'pauses %r: concatenated index %r vs uninterrupted %r%s' % (pr['pauses'], flat[:16], full[:16], (' revisited ' + repr(dup[:4])) if dup else '')))
            return viol
        for i, stop in enumerate(pr['pauses']):
            if i + 1 < len(idx) and idx[i + 1] and idx[i + 1][0] <= stop:
                viol.append(V('c10.part_start', tag, 'part after pause %d starts at %d' % (stop, idx[i + 1][0])))
        st_cells, q_cells = oracles.on_switching_point(scn, out.tables, ref.tables, full)
        if st_cells:
            bump(c, 'c10.status_differs_on_switching_point', len(st_cells))
        v2 = oracles.compare_tables(out.tables, ref.tables, full, label='c10.values', keys=oracles.SLACK_KEYS, skip_status=st_cells, skip_flow=q_cells,
                                    slack=oracles.solver_slack(scn, ref.tables if hasattr(ref, "tables") and ref.tables is not None else ref.results, full), col_atol=col)
        for x in v2:
            x['sig'] = x['sig'] + '.' + tag
        return viol + v2


PROP = C10()
