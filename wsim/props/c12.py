"""C12 - writing a model to an EPANET INP file and reading it back preserves it (engine E2; the restart fault is
inp(units, version) placed inside seeded edit histories; the history continues on the reloaded model)."""
import json
import os
import re

from .. import store
from ..oracles import V
from .base import bump
from .c14 import StoreProp, WEIGHTS

OPTION_GROUPS = ('time', 'hydraulic', 'quality', 'reaction', 'energy')
ONLY_22 = ('demand_model', 'minimum_pressure', 'required_pressure', 'pressure_exponent', 'headerror', 'flowchange')
RELATIVE_ONLY = ('bulk_coeff', 'wall_coeff', 'emitter_coefficient', 'energy_price', 'global_price', 'diffusivity', 'tolerance', 'strength',
                 'initial_quality', 'limiting_potential', 'roughness_correl', 'demand_charge', 'base_val', 'viscosity', 'accuracy')


def comparable(wn, m, version):
    """the part of the dictionary the statement speaks about, in a canonical order"""
    d = wn.to_dict()
    d = json.loads(json.dumps(d, sort_keys=True, default=str))
    out = {}
    opts = {}
    for g in OPTION_GROUPS:
        og = dict(d['options'].get(g, {}))
        for k in ('inpfile_units', 'inpfile_pressure_units', 'hydraulics', 'hydraulics_filename', 'pattern_interpolation'):
            if not (g == 'quality' and k == 'inpfile_units'):      # the flow units are a parameter of the write; the mass units are part of the model
                og.pop(k, None)
        if version == 2.0 and g == 'hydraulic':
            for k in ONLY_22:
                og.pop(k, None)
        if g == 'hydraulic' and og.get('demand_model') in ('DD', 'DDA', None):
            # the pressure-driven parameters are only written with a pressure-driven demand model
            for k in ('minimum_pressure', 'required_pressure', 'pressure_exponent'):
                og.pop(k, None)
            og['demand_model'] = 'DDA'
        if g == 'hydraulic' and og.get('demand_model') in ('PDD', 'PDA'):
            og['demand_model'] = 'PDA'
            if og.get('required_pressure') is not None and og['required_pressure'] < 0.15:
                og.pop('required_pressure')      # below EPANET's lower limit (0.1 psi or m): the writer clamps it, with a warning
        if g == 'quality' and str(og.get('parameter', 'NONE')).upper() != 'TRACE':
            og.pop('trace_node', None)      # the QUALITY line names a trace node only for a TRACE analysis
        if g == 'quality' and str(og.get('parameter', 'NONE')).upper() in ('NONE', 'AGE', 'TRACE'):
            og.pop('chemical_name', None)   # ... and a chemical (with its mass units) only for a chemical analysis
            og.pop('inpfile_units', None)
        opts[g] = og
    out['options'] = opts
    # a default pattern name that names no pattern means "no pattern" (empty pattern name)
    pnames = set(p['name'] for p in d['patterns'])
    dflt = opts['hydraulic'].get('pattern')
    if dflt is not None and str(dflt) not in pnames:
        opts['hydraulic']['pattern'] = None
    used = set(c for c in m.curves if m.curve_referenced(c))
    out['curves'] = sorted([c for c in d['curves'] if c['name'] in used], key=lambda c: c['name'])
    out['patterns'] = sorted(d['patterns'], key=lambda p: p['name'])
    nodes = []
    for n in d['nodes']:
        n = dict(n)
        for k in ('leak', 'leak_area', 'leak_discharge_coeff', 'minimum_pressure', 'required_pressure', 'pressure_exponent'):
            n.pop(k, None)
        if version == 2.0:
            n.pop('overflow', None)         # tank overflow is an EPANET 2.2 feature
        if n.get('node_type') == 'Tank' and str(n.get('mixing_model')) not in ('Mix2', 'TwoComp', '2COMP'):
            n.pop('mixing_fraction', None)  # the format has a place for the fraction of a two-compartment tank only
        for ts in n.get('demand_timeseries_list') or []:
            if ts.get('pattern_name') in ('', None) or (str(ts.get('pattern_name')) == str(dflt) and str(dflt) not in pnames):
                ts['pattern_name'] = None
        if n.get('demand_pattern') in ('', None) or (str(n.get('demand_pattern')) == str(dflt) and str(dflt) not in pnames):
            n['demand_pattern'] = None
        nodes.append(n)
    out['nodes'] = sorted(nodes, key=lambda n: n['name'])
    out['links'] = sorted(d['links'], key=lambda l: l['name'])
    out['sources'] = [dict((k, v) for k, v in s.items() if k != 'name') for s in d['sources']]
    out['simple_controls'] = sorted([c for c in d['controls'] if c['type'] == 'simple'], key=lambda c: (' '.join(c['then_actions'][0].split()[:2]), c['condition'].split()[:4], c['then_actions']))
    out['rules'] = sorted([c for c in d['controls'] if c['type'] == 'rule'], key=lambda c: c['name'])
    return out


def approx_diff(a, b, path='', rtol=1e-5, atol=3e-7):
    if isinstance(a, bool) or isinstance(b, bool) or a is None or b is None:
        return None if a == b else '%s: %r vs %r' % (path, a, b)
    if isinstance(a, (int, float)) and isinstance(b, (int, float)):
        leaf = path.rsplit('/', 1)[-1].split('[')[0]
        at = 1e-15 if leaf in RELATIVE_ONLY else atol
        if abs(a - b) <= at + rtol * max(abs(a), abs(b)):
            return None
        return '%s: %r vs %r' % (path, a, b)
    if type(a) != type(b):
        return '%s: %r vs %r' % (path, a, b)
    if isinstance(a, dict):
        for k in sorted(set(a) | set(b)):
            if k not in a or k not in b:
                return '%s/%s: only on one side (%r)' % (path, k, a.get(k, b.get(k)))
            r = approx_diff(a[k], b[k], path + '/' + str(k), rtol, atol)
            if r:
                return r
        return None
    if isinstance(a, list):
        if len(a) != len(b):
            return '%s: length %d vs %d' % (path, len(a), len(b))
        for i, (x, y) in enumerate(zip(a, b)):
            r = approx_diff(x, y, '%s[%d]' % (path, i), rtol, atol)
            if r:
                return r
        return None
    if isinstance(a, str) and a != b:
        # condition / action text carries numbers: compare token-wise with tolerance
        ta, tb = a.split(), b.split()
        if len(ta) == len(tb):
            ok = True
            for x, y in zip(ta, tb):
                if x == y:
                    continue
                try:
                    fx, fy = float(x), float(y)
                    if abs(fx - fy) > atol + rtol * max(abs(fx), abs(fy)):
                        ok = False
                except ValueError:
                    ok = False
            if ok:
                return None
        return '%s: %r vs %r' % (path, a, b)
    return None if a == b else '%s: %r vs %r' % (path, a, b)


def norm_text(path):
    out = []
    skip = False
    with open(path, 'r', errors='replace') as fh:
        for line in fh:
            s = line.rstrip()
            if s.startswith('[TITLE]'):
                skip = True
                continue
            if skip and s.startswith('['):
                skip = False
            if skip or s.lstrip().startswith(';') or not s.strip():
                continue
            out.append(re.sub(r'\s+', ' ', s.strip()))
    return out


def sig_of(diff):
    where = diff.split(':')[0]
    parts = [p.split('[')[0] for p in where.split('/') if p]
    return '/'.join(parts[:2] + parts[-1:]) if len(parts) > 2 else '/'.join(parts)


class C12(StoreProp):
    p_file = 0.012      # histories that start from a model read from an INP file shipped with the package
    id = 'C12'
    quick_runs = 6000
    thorough_runs = 40000
    chunk = 16
    w = dict(WEIGHTS)
    w.update({'set_attr': 8, 'leak': 0, 'set_option': 6, 'remove': 4, 'add_demand': 4, 'add_control': 7, 'add_source': 3, 'restart': 3, 'quality': 3})
    profile = {'weights': w, 'n_ops': (12, 45), 'junction_pdd': False, 'tank_attrs': ['level'],
               'restarts': [('inp', 8), ('pickle', 1), ('deepcopy', 1), ('dict', 1)]}
    rule = ('one case = one seeded edit history of 8-36 operations (all element kinds incl. every valve type and curve type, several demands per junction with '
            'categories, tags, vertices, statuses/settings, quality attributes, sources, simple controls and rules with AND/OR/ELSE/priorities on status, '
            'setting and speed, option changes in the time/hydraulic/quality/reaction/energy groups) with INP restarts in a seeded unit system (10) and '
            'version (2.0/2.2) placed inside it. At every INP restart the re-read model must equal the written one on everything the statement lists '
            '(structural comparison in SI, floats to rtol 1e-5 + 3e-7), the second write/read cycle must reproduce the first file text exactly '
            '(title excluded) and the first reload (to 1e-9), and the history continues on the reloaded model. non-trivial = an INP restart of a model with '
            '>= 3 links and a control or rule; distinct = digest of the executed operation sequence. 1.2 % of the cases instead start from a model read '
            'from an INP file shipped with the package (Net1, Net2, Net3, ky10, Net6) and apply 2-6 positional edits and restarts to it.')
    assumptions = ['WNTR-only settings are not generated in the compared part: pattern interpolation, per-junction PDD parameters, leaks, empty patterns, '
                   "report_timestep='ALL'; typed curves nothing refers to are left out of the comparison",
                   'model name (becomes the file name), source names and simple-control names are not compared (the format does not store them)',
                   'rule conditions are premise lists as EPANET reads them (conjunction of OR-groups)',
                   'float tolerance: rtol 1e-5 + atol 3e-7 in SI (the writer prints 11 significant digits; curves 6 decimals in file units)']

    def after_op(self, wn, m, op, c):
        return []

    def at_restart(self, wn, wn2, op, m, c, scratch):
        import wntr
        if op['how'] != 'inp':
            return []
        viol = []
        ver = op.get('version', 2.2)
        bump(c, 'c12.inp_roundtrips')
        bump(c, 'c12.units.' + op.get('units', 'LPS'))
        bump(c, 'c12.version.%s' % ver)
        if len(m.links) >= 3 and m.controls:
            bump(c, 'c12.rich_roundtrips')
        d1 = comparable(wn, m, ver)
        d2 = comparable(wn2, m, ver)
        diff = approx_diff(d1, d2)
        if diff:
            viol.append(V('c12.reload_differs', sig_of(diff), 'INP %s v%s: re-read model differs from the written one at %s' % (op.get('units'), ver, diff)))
            return viol
        # second cycle changes nothing further
        p1 = os.path.join(scratch, 'm.inp')
        p2 = os.path.join(scratch, 'm2.inp')
        try:
            wntr.network.write_inpfile(wn2, p2, units=op.get('units', 'LPS'), version=ver)
            wn3 = wntr.network.WaterNetworkModel(p2)
        except Exception as e:  # noqa
            viol.append(V('c12.second_cycle_raises', type(e).__name__, 'second write/read cycle: %r' % (e,)))
            return viol
        p3 = os.path.join(scratch, 'm3.inp')
        try:
            wntr.network.write_inpfile(wn3, p3, units=op.get('units', 'LPS'), version=ver)
        except Exception as e:  # noqa
            viol.append(V('c12.second_cycle_raises', type(e).__name__, 'third write: %r' % (e,)))
            return viol
        t1, t2 = norm_text(p2), norm_text(p3)
        if t1 != t2:
            bad = [(a, b) for a, b in zip(t1, t2) if a != b][:2] or [('length %d' % len(t1), 'length %d' % len(t2))]
            sec = 'text'
            viol.append(V('c12.second_write_differs', sec, 'INP %s v%s: the file written from the second reload differs from the one written from the first: %r' % (op.get('units'), ver, bad)))
        d3 = comparable(wn3, m, ver)
        diff = approx_diff(d2, d3, rtol=1e-9, atol=1e-12)
        if diff:
            viol.append(V('c12.second_reload_differs', sig_of(diff), 'INP %s v%s: second reload differs from the first at %s' % (op.get('units'), ver, diff)))
        return viol


PROP = C12()
