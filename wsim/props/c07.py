"""C07 - pressure-dependent demand follows the documented pressure-demand curve."""
from .. import gen, e1, inv
from .c01 import InvProp


class C07(InvProp):
    id = 'C07'
    rule = ('one case = one PDD world with global Pmin<Preq and exponent in (0,1], per-junction overrides of any subset of the three on some '
            'junctions, and a pressure sweep through simulated time: the source head pattern walks the junction pressures from far below Pmin '
            'to far above Preq with extra points at the band edges; every reported row x junction is compared with the documented curve (bracket '
            'inside the two 0.05 m bands) and the per-junction history is checked to be non-decreasing and continuous in pressure. '
            'non-trivial = samples in at least two of the regions below/middle/band/above; distinct = event-log digest')
    assumptions = ['curve tolerance = (min(1e-6, 20 x reached residual norm))/requested demand on d/D',
                   'junctions whose two smoothing bands overlap (Preq-Pmin <= 0.1 m) are only checked for 0<=d/D<=1 and monotonicity']

    def make(self, rng, tier):
        cfg = dict(p_pdd=1.0, steps=(10, 40), hyd_steps=[600, 900, 1800, 3600], p_pump_source=0.0, n_tanks=[(0, 1)], n_valves=[(0, 1)],
                   p_res_pattern=0.0, p_res2=0.0, nj=(1, 5), p_zero_demand=0.2, p_report_all=0.3, p_dur_off=0.0, p_cv=0.0, p_multi_demand=0.5, p_first_zero=0.3)
        scn = gen.gen_world(rng, cfg)
        scn['profile'] = 'c07'
        scn['run']['solver_options'] = {'MAXITER': 500}
        o = scn['options']
        o['pexp'] = rng.pick([0.5, 0.5, 1.0, 0.3, 0.75, 0.9])
        # pressure sweep: reservoir head pattern from below the lowest elevation+pmin to above the highest elevation+preq
        js = [n for n in scn['nodes'] if n['type'] == 'J']
        res = [n for n in scn['nodes'] if n['type'] == 'R'][0]
        nst = o['duration'] // o['hyd_step'] + 1
        o['pattern_step'] = o['hyd_step']
        o['pattern_start'] = 0
        elev_lo = min(n['elev'] for n in js)
        elev_hi = max(n['elev'] for n in js)
        lo = elev_lo + o['pmin'] - rng.uni(1.0, 5.0)
        hi = elev_hi + max([o['preq']] + [n.get('pdd', {}).get('preq', 0) for n in js]) + rng.uni(2.0, 10.0)
        probe = rng.pick(js)
        pm, pr, ex = inv.pdd_params(scn, probe)
        heads = [lo + (hi - lo) * k / max(1, nst - 1) for k in range(nst)]
        edges = []
        for base in (pm, pm + 0.05, pr - 0.05, pr):
            for d in (-1e-3, -1e-6, 1e-6, 1e-3, 0.02, -0.02):
                edges.append(probe['elev'] + base + d)
        rng.shuffle(edges)
        for k, e in enumerate(edges[:max(2, nst // 3)]):
            heads[rng.irange(0, nst - 1)] = e
        if rng.chance(0.5):
            heads.sort()
        res['head'] = 1.0
        scn['patterns']['HSWEEP'] = [round(h, 7) for h in heads]
        res['pattern'] = 'HSWEEP'
        # short fat feed so junction pressure ~ head - elevation
        for l in scn['links']:
            if l['type'] == 'pipe' and 'R1' in (l['a'], l['b']):
                l['len'] = 50.0
                l['diam'] = 0.6
        e1.add_faults(rng, scn, p_pause=0.2, p_rescue=0.1)
        if rng.chance(0.15):
            scn['edits'] = e1.gen_edits(rng, scn)
        if rng.chance(0.25):
            # a time control on a junction changes that junction's own required pressure / minimum pressure / exponent during the run
            jn = rng.pick(js)
            pm_, pr_, ex_ = inv.pdd_params(scn, jn)
            attr = rng.pick(['required_pressure', 'required_pressure', 'minimum_pressure'])    # the two the simulator registers updaters for
            val = {'required_pressure': round(pr_ + rng.pick([3.0, 8.0, -0.4 * (pr_ - pm_)]), 3), 'minimum_pressure': round(pm_ + 0.4 * (pr_ - pm_), 3),
                   'pressure_exponent': rng.pick([0.4, 0.8, 1.0])}[attr]
            tch = int(rng.irange(1, max(1, o['duration'] // o['hyd_step'] - 1)) * o['hyd_step'] + rng.pick([0, 0, 37]))
            scn['pdd_changes'] = [{'t': tch, 'node': jn['id'], 'attr': attr, 'value': val}]
            feed = [l_ for l_ in scn['links'] if l_['type'] == 'pipe' and not l_.get('cv') and jn['id'] in (l_['a'], l_['b'])]
            if len(feed) == 1 and rng.chance(0.4) and tch - o['hyd_step'] > 0:
                # the junction is cut off (its only pipe closed) while the control changes its parameter, and reconnected afterwards
                for nm_, t_, v_ in (('cut', tch - o['hyd_step'], 'CLOSED'), ('rejoin', tch + o['hyd_step'], 'OPEN')):
                    if 0 < t_ <= o['duration']:
                        scn['controls'].append({'name': nm_ + '1', 'kind': 'simple', 'cond': {'t': 'simtime', 'rel': '=', 'thr': int(t_ // o['hyd_step'] * o['hyd_step'])},
                                                'then': [{'link': feed[0]['id'], 'attr': 'status', 'value': v_}], 'priority': 3})
            scn.pop('edits', None)      # the control leaves the junction changed: a rerun on the same model would start from the changed value
        return scn

    def oracle(self, scn, out, c):
        return inv.c07(scn, out.tables, c, rn=inv.rnorms(out))

    def nontrivial(self, scn, out, c):
        regions = sum(1 for k in ('c07.below', 'c07.middle', 'c07.above', 'c07.band_samples') if c.get(k, 0) > 0)
        return regions >= 2


PROP = C07()
