"""C04 - time-based controls and rules act exactly at their configured instants.
History check of the real run against the reference control timeline (refmodel.control_timeline)."""
from .. import gen, e1, inv, world
from .. import refmodel as rm
from ..oracles import V
from .base import Prop, verdict, bump, event_kinds, ngrams

RELS = ['>=', '<=', '>', '<', '=']


def cond_kind(c):
    k = c['cond']['t']
    if k in ('and', 'or'):
        return k
    return k + c['cond']['rel']


def break_ties(scn, rng):
    """the statement does not order equal priorities nor a rule against a simple control: remove such meetings"""
    for _ in range(6):
        ini, ch, ties = rm.control_timeline(scn)
        if not ties:
            return True
        tied = sorted(set(tg for _, tg in ties))      # sorted: set order depends on the interpreter's hash seed
        for tg in tied:
            for kind in ('rule', 'simple'):
                cs = [c for c in scn['controls'] if c['kind'] == kind and any((a['link'], a['attr']) == tg for a in c['then'] + c.get('else', []))]
                pr = list(range(0, 7))
                rng.shuffle(pr)
                if len(cs) > 7:
                    for c in cs[7:]:
                        scn['controls'].remove(c)
                    cs = cs[:7]
                for c, p in zip(cs, pr):
                    c['priority'] = p
        ini, ch, ties = rm.control_timeline(scn)
        if not ties:
            return True
        # rule meets simple control on the same target and instant: drop the simple controls involved
        for t, tg in sorted(ties):
            for c in list(scn['controls']):
                if c['kind'] == 'simple' and (c['then'][0]['link'], c['then'][0]['attr']) == tg and t in rm.simple_instants(c['cond'], scn['options']):
                    scn['controls'].remove(c)
    ini, ch, ties = rm.control_timeline(scn)
    return not ties


class C04(Prop):
    id = 'C04'
    quick_runs = 4000
    thorough_runs = 60000
    chunk = 16
    rule = ('one case = one generated world with 1-6 time controls and time rules on 1-3 targets (pipe/pump status, valve setting): AT TIME '
            '(once, optionally repeating), AT CLOCKTIME (daily, once, from clock day first_day), rules over SYSTEM TIME / SYSTEM CLOCKTIME with =,>=,<=,>,<, AND/OR, ELSE, '
            'priorities; start_clocktime on/off the hour, instants on the hydraulic grid, on the rule grid only, off both, 0, duration, equal to or '
            'one second from another instant, around midnight; report ALL or grid; faults: pause/persist/restart next to control instants, '
            'rescued solver faults, evaluator-order perturbation. The real run is compared with the reference control timeline at EVERY accepted '
            'step (commanded status/setting exact) and, with report ALL, every instant at which the reference changes a target must be a row. '
            'non-trivial = the reference changes a target at t>0; distinct = event-log digest')
    assumptions = ['rule timestep divides the hydraulic timestep (then "positive multiples of the rule timestep" coincides with EPANET)',
                   "'=' thresholds of rules lie on the rule grid; equal priorities on one target and instant, and a rule meeting a simple control "
                   'there with a different value, are not generated (the statement does not order them)',
                   'instants after the last hydraulic grid time <= duration are not required to be rows']

    def make(self, rng, tier):
        hyd = rng.pick([600, 900, 1200, 1800, 3600, 3600, 7200])
        cfg = dict(hyd_steps=[hyd], steps=(4, 48), n_tanks=[(0, 5), (1, 2)], p_pdd=0.1, p_clock=0.6, nj=(3, 7), p_loop=0.8,
                   n_valves=[(0, 3), (1, 2)], vtypes=['TCV', 'PRV', 'TCV'], p_dur_off=0.05, p_pump_source=0.2, p_cv=0.05)
        scn = gen.gen_world(rng, cfg)
        scn['profile'] = 'c04'
        scn['run']['solver_options'] = {'MAXITER': 500}
        o = scn['options']
        divs = [d for d in (1, 2, 3, 4, 5, 6, 10, 12, 20) if hyd % d == 0 and hyd // d >= 60]
        o['rule_step'] = hyd // rng.pick(divs)
        o['report_step'] = 'ALL' if rng.chance(0.65) else int(hyd * rng.pick([1, 1, 2]))
        if rng.chance(0.3):
            o['start_clocktime'] = int(rng.pick([0, 86400 - hyd, 86400 - hyd // 2, 86400 - 2 * hyd - 7, 43200, 43200 - hyd, 3661]))
        rs = o['rule_step']
        dur = o['duration']
        pipes = gen.plain_pipes(scn)
        valves = [l for l in scn['links'] if l['type'] == 'valve']
        pumps = [l for l in scn['links'] if l['type'] == 'pump']
        pool = [(l, 'status') for l in pipes] + [(l, 'setting') for l in valves] + ([(l, 'status') for l in pumps] if rng.chance(0.4) else [])
        if not pool:
            pool = [(l, 'status') for l in scn['links'] if l['type'] == 'pipe' and not l.get('cv')]
        rng.shuffle(pool)
        targets = pool[:rng.irange(1, 3)]
        instants = []

        def instant(bias=None):
            if instants and rng.chance(0.3):
                t = rng.pick(instants) + rng.pick([0, 0, 1, -1, rs, -rs])
            else:
                t = gen.time_instant(rng, scn, bias)
                if rng.chance(0.15):      # around midnight
                    m = (86400 - o.get('start_clocktime', 0)) % 86400
                    t = m + rng.pick([0, 1, -1, rs, -rs, hyd, -hyd])
            t = int(min(max(t, 0), dur))
            instants.append(t)
            return t

        def action(tg):
            l, attr = tg
            if attr == 'status':
                return {'link': l['id'], 'attr': 'status', 'value': rng.pick(['OPEN', 'CLOSED'])}
            base = l['setting'] if l['setting'] > 0 else 5.0
            return {'link': l['id'], 'attr': 'setting', 'value': float(round(base * rng.pick([0.5, 0.8, 1.0, 1.5, 2.0]), 6))}

        def other(a, l):
            if a['attr'] == 'status':
                return dict(a, value='OPEN' if a['value'] == 'CLOSED' else 'CLOSED')
            return dict(a, value=float(round(a['value'] * rng.pick([0.5, 2.0]), 6)))

        def rule_cond():
            k = rng.pick(['simtime', 'clock', 'clock'])
            rel = rng.pick(RELS)
            if rel == '=':
                t = rng.irange(0, max(1, dur // rs)) * rs
                if instants and rng.chance(0.3):
                    t = (rng.pick(instants) // rs) * rs
            else:
                t = instant()
            instants.append(int(t))
            if k == 'simtime':
                return {'t': 'simtime', 'rel': rel, 'thr': int(t)}
            cond = {'t': 'clock', 'rel': rel, 'thr': int(rm.clock_of(t, o))}
            if rng.chance(0.12):
                cond['first_day'] = 1            # daily, from clock day 1 on
            elif rng.chance(0.12) and (rel == '=' or cond['thr'] >= o.get('start_clocktime', 0)):
                cond['once'] = True              # single trigger; after/before are then not reset at midnight
            return cond

        n = rng.irange(1, 6)
        p_rule = rng.pick([0.0, 0.3, 0.6, 1.0])
        for i in range(n):
            tg = rng.pick(targets)
            name = 'k%d' % (i + 1)
            if rng.chance(p_rule):
                cond = rule_cond()
                if rng.chance(0.3):
                    cond = {'t': rng.pick(['and', 'or']), 'a': cond, 'b': rule_cond()}
                a = action(tg)
                c = {'name': name, 'kind': 'rule', 'cond': cond, 'then': [a], 'else': [], 'priority': rng.irange(0, 6)}
                if rng.chance(0.45):
                    c['else'] = [other(a, tg[0])]
                if rng.chance(0.2) and len(targets) > 1:
                    tg2 = rng.pick(targets)
                    if tg2 is not tg:
                        c['then'].append(action(tg2))
                scn['controls'].append(c)
            else:
                t = instant()
                kind = rng.wpick([('simtime', 5), ('clock', 4), ('repeat', 1)])
                if kind == 'clock':
                    cond = {'t': 'clock', 'rel': '=', 'thr': int(rm.clock_of(t, o))}
                    if rng.chance(0.2):
                        cond['once'] = True          # a single, timed trigger (repeat=False)
                        if rng.chance(0.3):
                            cond['first_day'] = 1
                    elif rng.chance(0.1):
                        cond['first_day'] = 1        # daily, from clock day 1 on
                elif kind == 'repeat':
                    cond = {'t': 'simtime', 'rel': '=', 'thr': int(t), 'repeat': int(rng.pick([86400, 4 * hyd, 3 * hyd + 60, 7200]))}
                else:
                    cond = {'t': 'simtime', 'rel': '=', 'thr': int(t)}
                scn['controls'].append({'name': name, 'kind': 'simple', 'cond': cond, 'then': [action(tg)],
                                        'priority': 3 if rng.chance(0.6) else rng.irange(0, 6)})
        if not break_ties(scn, rng):
            scn['controls'] = scn['controls'][:1]
        # faults: pauses next to reference change instants
        ini, ch, ties = rm.control_timeline(scn)
        grid_n = dur // hyd
        if rng.chance(0.45) and grid_n >= 2:
            cands = set()
            for t, _ in ch:
                for g in (t // hyd * hyd, (t // hyd + 1) * hyd, (t // hyd - 1) * hyd):
                    if 0 < g < dur:
                        cands.add(int(g))
            cands = sorted(cands) or [int(rng.irange(1, grid_n - 1) * hyd)]
            persist = rng.pick(['none', 'pickle', 'deepcopy'])
            for _ in range(rng.irange(1, 2)):
                scn['faults'].append({'kind': 'pause', 'at': rng.pick(cands), 'persist': persist})
        e1.add_faults(rng, scn, p_pause=0.0, p_rescue=0.1, p_evalorder=0.25)
        return scn

    def in_space(self, scn):
        """the space the statement (and assumptions above) cover; shrinking must not leave it"""
        o = scn['options']
        rs = o.get('rule_step', 360)
        if o['hyd_step'] % rs:
            return False

        def ok(cond):
            if cond['t'] in ('and', 'or'):
                return ok(cond['a']) and ok(cond['b'])
            if cond['rel'] == '=':
                x = cond['thr'] if cond['t'] == 'simtime' else (cond['thr'] - o.get('start_clocktime', 0)) % 86400
                return x % rs == 0
            if cond.get('once') and (cond.get('first_day') or cond['thr'] < o.get('start_clocktime', 0)):
                return False      # 'before' on a later day: the docstring and the day gate disagree; not generated
            return True
        return all(ok(c['cond']) for c in scn['controls'] if c['kind'] == 'rule')

    def examine(self, scn, tier='quick'):
        c = {}
        if not self.in_space(scn):
            return verdict('discard', [], c, None, discard='outside_generated_space')
        out = e1.simulate(scn)
        e1.fired_counters(out, c)
        kind, v = e1.classify(out)
        dig = out.rec.digest()
        sims = out.rec.steps[-1]['t'] if out.rec.steps else 0
        if kind in ('stepcap', 'repo_exception'):
            site = out.exc_site or ''
            if kind == 'repo_exception' and ('controls.py' in site or '_compute_next_timestep_and_run_presolve_controls_and_rules' in site):
                return verdict('violation', [V('c04.condition_raises', '%s@%s' % (type(out.exc).__name__, site), (out.exc_tb or '')[-600:])], c, dig, sample=world.summary(scn))
            return verdict('discard', [], c, dig, discard='repo_exception_other_property', sample=world.summary(scn))
        if kind.startswith('discard'):
            return verdict('discard', [], c, dig, discard=kind[8:], sim_seconds=sims, sample=world.summary(scn))
        viol = self.oracle(scn, out, c)
        nt = c.get('c04.ref_changes_after_0', 0) > 0
        return verdict('violation' if viol else 'ok', viol, c, dig, nontrivial=nt, sim_seconds=sims,
                       ngrams=ngrams(event_kinds(out.rec, scn)), sample=world.summary(scn))

    def oracle(self, scn, out, c):
        viol = []
        o = scn['options']
        hyd = o['hyd_step']
        dur = o['duration']
        rs = o.get('rule_step', 360)
        last_grid = dur // hyd * hyd
        ini, changes, ties = rm.control_timeline(scn)
        tied = set(tg for _, tg in ties)
        if tied:
            bump(c, 'c04.skipped_tied_targets', len(tied))
        targets = [tg for tg in ini if tg not in tied]
        # which control decided the reference value (for the signature)
        kinds = {}
        for ctl in scn['controls']:
            for a in ctl['then'] + ctl.get('else', []):
                kinds.setdefault((a['link'], a['attr']), []).append(ctl['kind'] + '.' + cond_kind(ctl))
        rows = inv.rows(out.tables)
        if any(b <= a for a, b in zip(rows, rows[1:])):
            # a time reported twice (or going back): a control acted at a wrong instant and the clock was rewound
            return [V('c04.report_index_not_increasing', 'index', 'reported times %r' % (rows[:14],))]
        rowset = set(rows)
        midnight = (86400 - o.get('start_clocktime', 0)) % 86400
        for t, ch in changes:
            if t > 0:
                bump(c, 'c04.ref_changes_after_0')
                if t % hyd:
                    bump(c, 'c04.ref_changes_off_hyd_grid')
                    if t % rs:
                        bump(c, 'c04.ref_changes_off_both_grids')
                if midnight and t >= midnight:
                    bump(c, 'c04.ref_changes_after_midnight')
                if len(ch) > 1:
                    bump(c, 'c04.two_targets_one_instant')
        if o.get('report_step') == 'ALL':
            for t, ch in changes:
                if 0 < t <= last_grid and t not in rowset and any(tg in targets for tg in ch):
                    tg = [x for x in ch if x in targets][0]
                    viol.append(V('c04.instant_not_a_step', tg[1], 'reference changes %s.%s to %r at t=%d but no step is reported there (rows near: %r; controls on it: %s)' %
                                  (tg[0], tg[1], ch[tg], t, [r for r in rows if abs(r - t) <= hyd], ','.join(sorted(set(kinds.get(tg, [])))))))
                    if len(viol) > 3:
                        break
        lm = world.link_map(scn)
        for s in out.rec.steps:
            t = int(s['t'])
            for tg in targets:
                lid, attr = tg
                want = rm.timeline_value(ini, changes, tg, t)
                if attr == 'status':
                    got = s['links'][lid]['user']
                    bad = int(got) != int(want)
                elif attr == 'setting':
                    got = s['links'][lid].get('setting')
                    bad = got is None or abs(float(got) - float(want)) > 1e-9 * max(1.0, abs(want))
                else:
                    continue
                bump(c, 'c04.step_target_checks')
                if bad:
                    viol.append(V('c04.value_at_step', attr, 't=%d %s.%s is %r, reference timeline says %r (controls on it: %s; last reference change %r)' %
                                  (t, lid, attr, got, want, ','.join(sorted(set(kinds.get(tg, [])))),
                                   [(tc, ch[tg]) for tc, ch in changes if tg in ch and tc <= t][-1:])))
            if len(viol) > 5:
                return viol
        # the reported tables carry the same values (plain pipes report their commanded status; valves their setting)
        for t in rows:
            for tg in targets:
                lid, attr = tg
                want = rm.timeline_value(ini, changes, tg, t)
                l = lm[lid]
                if attr == 'status' and l['type'] == 'pipe' and not l.get('cv') and l['a'].startswith('J') and l['b'].startswith('J'):
                    got = int(out.tables.link['status'].loc[t, lid])
                    if got != int(want):
                        viol.append(V('c04.reported_status', 'status', 't=%d %s reported status %r, reference %r' % (t, lid, got, want)))
                elif attr == 'setting':
                    got = float(out.tables.link['setting'].loc[t, lid])
                    if abs(got - float(want)) > 1e-9 * max(1.0, abs(want)):
                        viol.append(V('c04.reported_setting', 'setting', 't=%d %s reported setting %r, reference %r' % (t, lid, got, want)))
            if len(viol) > 5:
                break
        return viol


PROP = C04()
