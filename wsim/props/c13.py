"""C13 - dictionary and JSON representations round-trip the model exactly (engine E2; the restart fault is dict|json,
placed at arbitrary points of seeded edit histories, after which the history continues on the reloaded model)."""
import json
import os

from .. import store
from ..oracles import V
from .base import bump
from .c14 import StoreProp, WEIGHTS
from .c11 import first_diff


def norm_dict(wn):
    """JSON normalisation the statement allows: tuples -> lists; empty pattern names"""
    d = wn.to_dict()
    d.pop('version', None)
    d.pop('comment', None)
    d = json.loads(json.dumps(d, sort_keys=True))

    def walk(x):
        if isinstance(x, dict):
            for k, v in list(x.items()):
                if k in ('pattern_name', 'pattern', 'head_pattern_name', 'speed_pattern_name', 'demand_pattern') and v in ('', None):
                    x[k] = None
                else:
                    walk(v)
        elif isinstance(x, list):
            for v in x:
                walk(v)
    walk(d)
    for n in d.get('nodes', []):
        if n.get('node_type') == 'Junction' and not n.get('demand_timeseries_list'):
            n['demand_timeseries_list'] = [{'base_val': 0.0, 'category': None, 'pattern_name': None}]
    return d


class C13(StoreProp):
    p_file = 0.012      # histories that start from a model read from an INP file shipped with the package
    id = 'C13'
    quick_runs = 8000
    thorough_runs = 100000
    w = dict(WEIGHTS)
    w.update({'set_attr': 8, 'leak': 3, 'set_option': 5, 'remove': 5, 'add_demand': 4, 'add_control': 6, 'add_source': 3, 'restart': 3, 'quality': 3})
    profile = {'weights': w, 'n_ops': (8, 40), 'tank_attrs': ['level', 'level', 'head'], 'p_nested_condition': 0.04,
               'restarts': [('dict', 4), ('json', 3), ('pickle', 1), ('deepcopy', 1), ('inp', 1)]}
    rule = ('one case = one seeded edit history of 8-40 operations (all element kinds, several demands per junction, tags, vertices on every link type, '
            'statuses and settings, quality/mixing attributes, per-junction PDD parameters, leaks, sources, curves of every type, simple controls and '
            'rules with AND/OR/ELSE/priorities, option changes in every group) with restarts placed inside it; at every dict/JSON restart the '
            'dictionary of the re-created model must EQUAL the original dictionary exactly after the stated normalisations (floats compared exactly), '
            'from_dict(d, append=<empty model>) must equal from_dict(d), and the history continues on the reloaded model. non-trivial = the model '
            'at a dict/JSON restart has >= 3 element kinds among {controls, sources, curves, several demands, vertices, leaks}; distinct = digest of '
            'the executed operation sequence. 1.2 % of the cases instead start from a model read from an INP file shipped with the package '
            '(Net1, Net2, Net3, ky10, Net6) and apply 2-6 positional edits and restarts to it.')
    assumptions = ['models are built by valid API calls (and, after an INP restart, by the INP reader)',
                   'JSON normalisation: tuples become lists, empty pattern names are None, a junction without demands has one zero demand']

    def after_op(self, wn, m, op, c):
        return []

    def at_restart(self, wn, wn2, op, m, c, scratch):
        import wntr
        if op['how'] not in ('dict', 'json'):
            return []
        viol = []
        d1 = norm_dict(wn)
        d2 = norm_dict(wn2)
        bump(c, 'c13.roundtrips')
        kinds = 0
        kinds += 1 if d1.get('controls') else 0
        kinds += 1 if d1.get('sources') else 0
        kinds += 1 if d1.get('curves') else 0
        kinds += 1 if any(len(n.get('demand_timeseries_list') or []) > 1 for n in d1.get('nodes', [])) else 0
        kinds += 1 if any(l.get('vertices') for l in d1.get('links', [])) else 0
        kinds += 1 if any(n.get('leak') for n in d1.get('nodes', [])) else 0
        if kinds >= 3:
            bump(c, 'c13.rich_roundtrips')
        # the dictionaries may agree and still both be wrong about a time: the instants of the clock-time conditions, through their public
        # `name` (which formats the threshold on a 24-hour clock, independently of the AM/PM text the dictionary stores), must survive
        def time_names(w):
            return [c_.condition.name for _, c_ in w.controls() if type(c_.condition).__name__ == 'TimeOfDayCondition']
        try:
            tn1, tn2 = time_names(wn), time_names(wn2)
            if tn1 != tn2:
                k_ = next((i_ for i_, (a_, b_) in enumerate(zip(tn1, tn2)) if a_ != b_), min(len(tn1), len(tn2)))
                viol.append(V('c13.time_condition_changed', 'name', '%s restart: time condition %d is %r before and %r after' %
                              (op['how'], k_, tn1[k_] if k_ < len(tn1) else None, tn2[k_] if k_ < len(tn2) else None)))
        except Exception as e:  # noqa
            viol.append(V('c13.time_condition_changed', 'raises:' + type(e).__name__, repr(e)))
        diff = first_diff(d1, d2)
        if diff:
            where = diff.split(':')[0]
            sig = '/'.join(p.split('[')[0] for p in where.split('/')[:3])
            leaf = where.rsplit('/', 1)[-1]
            if leaf == 'condition' and any(not x.get('canonical', True) for x in m.controls.values()):
                leaf = 'condition:grouping_not_expressible'
            viol.append(V('c13.dict_roundtrip', sig + ':' + leaf, '%s restart: to_dict(from_dict(d)) differs from d at %s' % (op['how'], diff)))
        try:
            wn3 = wntr.network.from_dict(json.loads(json.dumps(wn.to_dict())), append=wntr.network.WaterNetworkModel())
            d3 = norm_dict(wn3)
            diff = first_diff(d2, d3)
            if diff:
                viol.append(V('c13.append_to_empty', 'differs', 'from_dict(d, append=empty model) differs from from_dict(d) at %s' % diff))
        except Exception as e:  # noqa
            viol.append(V('c13.append_to_empty', 'raises:' + type(e).__name__, 'from_dict(d, append=empty model): %s' % e))
        return viol


PROP = C13()
