"""C06 - tank volumes integrate their net inflow and stay within their limits."""
from .. import gen, e1, inv
from .c01 import InvProp


class C06(InvProp):
    id = 'C06'
    rule = ('one case = one generated world with 1-2 tanks (cylindrical or 2-5 point volume curves, several links incl. pumps and CV pipes), '
            'demand patterns that fill and drain, level controls, hydraulic step 300-7200 s, with pause/persist/restart faults; every pair of '
            'consecutive solved steps is checked against the explicit-Euler volume identity with the reference volume function, and every step '
            'against the level limits. non-trivial = some tank level moved by more than 10 % of its range; distinct = event-log digest')
    assumptions = ['the Euler identity is checked on the live model at every accepted step (tap on update_network_previous_values), i.e. on all solved steps, not only reported ones',
                   'tanks are sized so that explicit Euler is stable for the chosen hydraulic step (otherwise trajectories are chaotic and say nothing)']

    def make(self, rng, tier):
        cfg = dict(n_tanks=[(1, 3), (2, 2)], p_vol_curve=0.45, steps=(6, 30), p_pattern=0.9, p_pump_source=0.35, p_cv=0.25,
                   demand=(0.001, 0.012))
        scn = gen.gen_world(rng, cfg)
        scn['profile'] = 'c06'
        scn['run']['solver_options'] = {'MAXITER': 500}
        # make tanks tight so that limits are reached
        for n in scn['nodes']:
            if n['type'] == 'T' and rng.chance(0.5):
                span = n['max'] - n['min']
                n['max'] = min(n['max'], round(n['init'] + span * rng.pick([0.02, 0.1, 0.3]), 3))
                if rng.chance(0.5):
                    n['min'] = round(max(0.0, n['init'] - span * rng.pick([0.02, 0.1, 0.3])), 3)
        # several links at a tank (the statement says so): extra pipes, some initially closed, created BEFORE or after the tank's
        # own pipe, so that the link order seen by the simulator's tank-limit controls varies
        juncs = [n['id'] for n in scn['nodes'] if n['type'] == 'J']
        for tk in [n for n in scn['nodes'] if n['type'] == 'T']:
            if not rng.chance(0.5):
                continue
            own = [i for i, l in enumerate(scn['links']) if tk['id'] in (l['a'], l['b'])]
            for k in range(rng.irange(1, 2)):
                j = rng.pick(juncs)
                l = {'id': 'x%d%s' % (k + 1, tk['id']), 'type': 'pipe', 'a': tk['id'], 'b': j, 'len': rng.logu(300.0, 3000.0, 4),
                     'diam': rng.pick([0.1, 0.15, 0.2]), 'rough': float(rng.pick([100, 120, 140])), 'minor': 0.0,
                     'status': rng.pick(['CLOSED', 'CLOSED', 'OPEN']), 'cv': False}
                if rng.chance(0.5):
                    l['a'], l['b'] = l['b'], l['a']
                if l['status'] == 'OPEN' and rng.chance(0.3):
                    l['cv'] = True
                scn['links'].insert(own[0] if (own and rng.chance(0.6)) else len(scn['links']), l)
        for tk in [n for n in scn['nodes'] if n['type'] == 'T']:
            if rng.chance(0.2):
                # a pump that discharges directly into the tank (the tank is its end node) from a low reservoir of its own
                rid = 'RP' + tk['id']
                lift = tk['elev'] + tk['max'] + rng.uni(3.0, 15.0)
                scn['nodes'].append({'id': rid, 'type': 'R', 'head': round(tk['elev'] - rng.uni(5.0, 30.0), 2), 'pattern': None})
                area = 3.14159 * tk['diam'] ** 2 / 4.0
                qd = max(0.002, area * (tk['max'] - tk['min']) / (scn['options']['duration'] * rng.uni(0.15, 0.6)))
                hd = lift - scn['nodes'][-1]['head']
                cname = 'C%d' % (len(scn['curves']) + 1)
                if rng.chance(0.5):
                    scn['curves'][cname] = {'type': 'HEAD', 'points': [[round(qd, 6), round(hd, 3)]]}
                    scn['links'].append({'id': 'up' + tk['id'], 'type': 'pump', 'a': rid, 'b': tk['id'], 'status': 'OPEN', 'speed': 1.0, 'pattern': None,
                                         'kind': 'HEAD', 'curve': cname})
                else:
                    scn['links'].append({'id': 'up' + tk['id'], 'type': 'pump', 'a': rid, 'b': tk['id'], 'status': 'OPEN', 'speed': 1.0, 'pattern': None,
                                         'kind': 'POWER', 'power': round(1000.0 * 9.81 * qd * hd, 1)})
        if rng.chance(0.5):
            gen.add_level_controls(rng, scn, rng.irange(1, 3))
        if rng.chance(0.3):
            gen.add_simple_time_controls(rng, scn, rng.irange(1, 2), p_priority=0.5)     # presolve controls of every priority next to the tank-limit controls
        e1.add_faults(rng, scn, p_pause=0.5, p_rescue=0.1)
        if rng.chance(0.15):
            scn['edits'] = e1.gen_edits(rng, scn)
        if scn.get('edits') and rng.chance(0.35):
            scn['edits'].append({'kind': 'short_first_run'})     # run one hydraulic step, reset, then the full run
        return scn

    def oracle(self, scn, out, c):
        return inv.c06(scn, out, c)

    def nontrivial(self, scn, out, c):
        for n in scn['nodes']:
            if n['type'] == 'T':
                lv = [s['nodes'][n['id']]['level'] for s in out.rec.steps]
                if lv and max(lv) - min(lv) > 0.1 * (n['max'] - n['min']):
                    return True
        return False


PROP = C06()
