"""Oracles over returned result tables and recorded histories.  No WNTR code is used to
compute an expected value; reference models live in refmodel.py."""
import math

import numpy as np
import pandas as pd

NODE_KEYS = ['head', 'demand', 'pressure', 'leak_demand']
LINK_KEYS = ['flowrate', 'velocity', 'status', 'setting']


# two runs that reach the same step from different Newton starting points agree only to the solver's
# residual tolerance (TOL=1e-6 in SI units); DESIGN.md 3.4.  velocity is flow/area and is left out.
SOLVER_SLACK = {'head': (1e-4, 1e-6), 'pressure': (1e-4, 1e-6), 'demand': (1e-6, 1e-4), 'leak_demand': (1e-6, 1e-4),
                'flowrate': (1e-6, 1e-4), 'setting': (1e-9, 1e-9)}
# two runs on the same trajectory (same Newton starting points) differ only by allocator noise from the
# pointer-ordered sets in evaluator.cpp, amplified by the conditioning of the step (observed up to 2e-8 relative
# across a control valve); compare_tables' defaults rtol=1e-6/atol=1e-7 sit between that and solver tolerance.
SLACK_KEYS = ['head', 'pressure', 'demand', 'leak_demand', 'flowrate', 'setting', 'status']


def V(oracle, sig, detail):
    """a violation record; (oracle, sig) is the signature used for known-findings and shrinking"""
    return {'oracle': oracle, 'sig': sig, 'detail': detail}


def tables_wellformed(res, scn, expect_times=None, accepted_times=None):
    """C16 well-formedness of the returned tables.  Returns list of violations."""
    out = []
    node_ids = [n['id'] for n in scn['nodes']]
    link_ids = [l['id'] for l in scn['links']]
    if res is None or getattr(res, 'node', None) is None or getattr(res, 'link', None) is None:
        return [V('tables.missing', 'none', 'results has no node/link tables')]
    idx0 = None
    for grp, keys, ids in (('node', NODE_KEYS, node_ids), ('link', LINK_KEYS, link_ids)):
        tabs = getattr(res, grp)
        for k in keys:
            if k not in tabs:
                out.append(V('tables.key_missing', grp + '.' + k, 'missing table'))
                continue
            df = tabs[k]
            if not isinstance(df, pd.DataFrame):
                # what run_sim hands back is not a table at all (e.g. the raw accumulator of a run that saved no row)
                out.append(V('tables.not_a_table', grp + '.' + k, 'results.%s[%r] is a %s, not a DataFrame' % (grp, k, type(df).__name__)))
                continue
            idx = [x for x in df.index]
            if idx0 is None:
                idx0 = idx
            elif idx != idx0:
                out.append(V('tables.index_differs', grp + '.' + k, 'index %r vs %r' % (idx[:6], idx0[:6])))
            cols = list(df.columns)
            if sorted(cols) != sorted(ids) or len(cols) != len(set(cols)):
                out.append(V('tables.columns', grp + '.' + k, 'columns %r expected %r' % (cols[:8], ids[:8])))
            if df.shape[0] > 0:
                try:
                    a = np.asarray(df.values, dtype=float)
                    if not np.all(np.isfinite(a)):
                        bad = [(idx[i], cols[j]) for i, j in zip(*np.where(~np.isfinite(a)))][:3]
                        out.append(V('tables.nonfinite', grp + '.' + k, 'non-finite at %r' % (bad,)))
                except Exception as e:  # noqa
                    out.append(V('tables.nonnumeric', grp + '.' + k, repr(e)))
    if idx0 is None:
        return out
    for a, b in zip(idx0, idx0[1:]):
        if not (b > a):
            out.append(V('tables.index_not_increasing', 'index', 'index %r' % (idx0[:10],)))
            break
    for t in idx0:
        if int(t) != t:
            out.append(V('tables.index_not_integer', 'index', repr(t)))
            break
    rs = scn['options'].get('report_step')
    hyd = scn['options']['hyd_step']
    if isinstance(rs, int):
        # effective report step as documented: multiples of the (possibly reduced) report step
        eff = rs
        if rs >= hyd and rs % hyd != 0:
            eff = rs - rs % hyd
        off = [t for t in idx0 if t % eff != 0]
        if off:
            out.append(V('tables.off_report_grid', 'index', 'times %r not multiples of %d' % (off[:5], eff)))
    if accepted_times is not None:
        if isinstance(rs, int):
            eff = rs if not (rs >= hyd and rs % hyd != 0) else rs - rs % hyd
            want = [int(t) for t in accepted_times if t % eff == 0]
        else:
            want = [int(t) for t in accepted_times]
        if [int(t) for t in idx0] != want:
            out.append(V('tables.index_vs_solved_steps', 'index', 'index %r, solved steps on grid %r' % (idx0[:12], want[:12])))
    if expect_times is not None and [int(t) for t in idx0] != [int(t) for t in expect_times]:
        out.append(V('tables.index_unexpected', 'index', 'index %r expected %r' % (idx0[:12], list(expect_times)[:12])))
    return out


def flow_col_atol(scn, ref, times):
    """per-link absolute flow slack for comparisons between runs that converge from different Newton starts:
    a head residual of TOL maps to a flow error TOL/(dh/dq); short fat pipes in loops are ill-conditioned."""
    from . import refmodel
    out = {}
    fl = ref.link['flowrate']
    for l in scn['links']:
        if l['type'] == 'pipe':
            try:
                q = float(fl.loc[times, l['id']].abs().min()) if len(times) else 0.0
            except Exception:  # noqa
                q = 0.0
            # around zero flow every q with R*q^1.852 below the head tolerance is 'converged'
            near_zero = (1e-5 / max(refmodel.pipe_resistance(l), 1e-9)) ** (1.0 / refmodel.HW_EXP)
            out[l['id']] = 1e-6 + max(1e-5 / max(refmodel.pipe_dhdq(l, max(q, 1e-4)), 1e-4), near_zero)
        else:
            out[l['id']] = 1e-5
    # links between the same pair of nodes share their head difference: the split of the flow among them is as ill-conditioned as
    # the least resistive of them (an open valve without minor loss next to a fat pipe), so they share the largest slack
    pairs = {}
    for l in scn['links']:
        pairs.setdefault(frozenset((l['a'], l['b'])), []).append(l['id'])
    for ids in pairs.values():
        if len(ids) > 1:
            m = max(out[i] for i in ids)
            if any(next(x for x in scn['links'] if x['id'] == i)['type'] == 'valve' for i in ids):
                m = max(m, 1e-4)
            for i in ids:
                out[i] = m
    # an open valve without a minor-loss coefficient has next to no resistance: in a loop that runs through it the split of the flow between the
    # two sides is as ill-conditioned as for parallel links (observed: PSV and FCV both open in the loop J1-v3-J3-p5-J4-v4-J1, 2.3e-5 m3/s apart)
    if len(scn['links']) >= len(scn['nodes']) and any(l['type'] == 'valve' and float(l.get('minor') or 0.0) < 0.5 for l in scn['links']):
        for i in list(out):
            out[i] = max(out[i], 1e-4)
    # the reported demand of a tank or reservoir is the net flow of its links: it carries the sum of their slacks
    for n in scn['nodes']:
        if n['type'] in ('T', 'R'):
            out[('node', n['id'])] = sum(out[l['id']] for l in scn['links'] if n['id'] in (l['a'], l['b']))
    return out


def solver_slack(scn, ref, times):
    """SOLVER_SLACK with the head allowance widened where heads are ill-conditioned: the mass-balance residual tolerance (1e-6 m3/s)
    maps to a head error of |dH/dQ| x 1e-6 behind a pump (H-Q curves are steep: thousands of m per m3/s at small flows)."""
    from . import refmodel
    worst = 0.0
    fl = ref.link['flowrate']
    for l in scn['links']:
        if l['type'] != 'pump':
            continue
        try:
            q = float(fl.loc[times, l['id']].abs().min()) if len(times) else 0.0
        except Exception:  # noqa
            q = 0.0
        q = max(q, 1e-4)
        if l.get('kind') == 'POWER':
            slope = l['power'] / (refmodel.RHO * refmodel.G * q * q)
        else:
            co = refmodel.pump_coeffs(scn['curves'][l['curve']]['points'])
            if co is None:
                slope = 1e4
            else:
                A, B, C = co
                qmax = float(fl.loc[times, l['id']].abs().max()) if len(times) else q
                slope = abs(B * C * max(qmax, q) ** (C - 1.0))
        worst = max(worst, slope)
    extra = min(2e-6 * worst, 0.05)
    o = scn['options']
    if o.get('demand_model') == 'PDD':
        # a pressure-dependent junction between Pmin and Preq: d = D*((p-Pmin)/(Preq-Pmin))**e, so a mass-balance residual of 1e-6 m3/s
        # moves its pressure by (Preq-Pmin)/(e*D) * 1e-6 * (d/D)**(1/e-1) <= (Preq-Pmin)/(e*D) * 1e-6
        dmin = None
        rngs = [(o.get('pmin', 0.0), o.get('preq', 0.07), o.get('pexp', 0.5))]
        for n in scn['nodes']:
            if n['type'] != 'J':
                continue
            tot = sum(abs(d[0]) for d in n.get('demands', []))
            if tot > 0:
                dmin = tot if dmin is None else min(dmin, tot)
            if n.get('pdd'):
                p_ = n['pdd']
                rngs.append((p_.get('pmin', rngs[0][0]), p_.get('preq', rngs[0][1]), p_.get('pexp', rngs[0][2])))
        if dmin:
            worst_p = max((b - a) / max(e, 0.1) for a, b, e in rngs)
            extra += min(3e-6 * worst_p / max(0.2 * dmin, 1e-5), 0.05)
    # the instant at which a tank reaches a level limit or a level-control threshold is resolved to the second from a crossing computed in
    # floating point: two runs that agree to the last digits may place it one second apart, and every head that follows the tank then differs
    # by up to that second of tank flow (the same allowance the tank-limit clause of C06 grants: ~2 s of flow)
    import math
    for n in scn['nodes']:
        if n['type'] != 'T':
            continue
        try:
            qt = float(ref.node['demand'].loc[times, n['id']].abs().max()) if len(times) else 0.0
        except Exception:  # noqa
            qt = 0.0
        area = math.pi * n['diam'] ** 2 / 4.0
        if n.get('vol_curve') and n['vol_curve'] in scn.get('curves', {}):
            pts = scn['curves'][n['vol_curve']]['points']
            slopes = [(b[1] - a[1]) / (b[0] - a[0]) for a, b in zip(pts, pts[1:]) if b[0] > a[0]]
            if slopes:
                area = max(min(slopes), 1e-3)
        extra += min(2.0 * qt / area, 0.01)
    out = dict(SOLVER_SLACK)
    out['head'] = (SOLVER_SLACK['head'][0] + extra, SOLVER_SLACK['head'][1])
    out['pressure'] = (SOLVER_SLACK['pressure'][0] + extra, SOLVER_SLACK['pressure'][1])
    return out


def on_switching_point(scn, res, ref, times):
    """cells (t, link) at which a link with status logic of its own (check-valve pipe, pump, PRV/PSV/FCV) sits on its switching point in
    BOTH runs: next to no flow, next to no head difference across it, or (valves) the controlled quantity at its setting.  Two runs that
    reach the step from different Newton starting points may then legitimately report different statuses, and the flow they report for the
    links between the same two nodes is not comparable in that row.  -> (set of (t, link) status cells, set of (t, link) flow cells)"""
    st_cells, q_cells = set(), set()
    elev = dict((n['id'], n.get('elev', 0.0)) for n in scn['nodes'])
    pairs = {}
    for l in scn['links']:
        pairs.setdefault(frozenset((l['a'], l['b'])), []).append(l['id'])
    for l in scn['links']:
        logic = (l['type'] == 'pipe' and l.get('cv')) or l['type'] == 'pump' or (l['type'] == 'valve' and l.get('vtype') in ('PRV', 'PSV', 'FCV'))
        if not logic:
            continue
        lid = l['id']
        for t in times:
            try:
                sa, sb = float(res.link['status'].loc[t, lid]), float(ref.link['status'].loc[t, lid])
            except Exception:  # noqa
                continue
            if sa == sb:
                continue
            ok = True
            for tab in (res, ref):
                q = abs(float(tab.link['flowrate'].loc[t, lid]))
                dh = abs(float(tab.node['head'].loc[t, l['a']]) - float(tab.node['head'].loc[t, l['b']]))
                near = q <= 1e-4 or dh <= 1e-2
                if l['type'] == 'valve':
                    sv = float(l.get('setting') or 0.0)
                    try:
                        sv = float(tab.link['setting'].loc[t, lid])
                    except Exception:  # noqa
                        pass
                    if l['vtype'] == 'PRV':
                        near = near or abs(float(tab.node['head'].loc[t, l['b']]) - elev.get(l['b'], 0.0) - sv) <= 1e-2
                    elif l['vtype'] == 'PSV':
                        near = near or abs(float(tab.node['head'].loc[t, l['a']]) - elev.get(l['a'], 0.0) - sv) <= 1e-2
                    else:
                        near = near or abs(q - sv) <= 1e-5 + 1e-3 * abs(sv)
                ok = ok and near
            if ok:
                st_cells.add((int(t), lid))
                for other in pairs[frozenset((l['a'], l['b']))]:
                    q_cells.add((int(t), other))
    return st_cells, q_cells


def compare_tables(res, ref, times, rtol=1e-6, atol=1e-7, keys=None, exact_keys=('status',), label='prefix',
                   slack=None, col_atol=None, skip_status=None, skip_flow=None):
    """res and ref must agree on the rows `times`.  slack: optional dict key -> (atol, rtol).  skip_status / skip_flow: cells (t, link) left
    out of the status (and setting) / flow comparison (see on_switching_point)."""
    out = []
    times = [int(t) for t in times]
    for grp, allkeys in (('node', NODE_KEYS), ('link', LINK_KEYS)):
        for k in allkeys:
            if keys is not None and k not in keys:
                continue
            a = getattr(res, grp)[k]
            b = getattr(ref, grp)[k]
            missing = [t for t in times if t not in a.index or t not in b.index]
            if missing:
                out.append(V(label + '.row_missing', grp + '.' + k, 'rows %r' % (missing[:5],)))
                continue
            if not times:
                continue
            cols = list(b.columns)
            try:
                x = np.asarray(a.loc[times, cols].values, dtype=float)
                y = np.asarray(b.loc[times, cols].values, dtype=float)
            except Exception as e:  # noqa
                out.append(V(label + '.columns', grp + '.' + k, repr(e)))
                continue
            if k in exact_keys:
                bad = np.where(x != y)
            else:
                at, rt = (atol, rtol) if not slack or k not in slack else slack[k]
                if col_atol is not None and k == 'flowrate':
                    at = np.array([max(at, col_atol.get(cn, at)) for cn in cols])[None, :]
                elif col_atol is not None and k == 'demand':
                    at = np.array([max(at, col_atol.get(('node', cn), at)) for cn in cols])[None, :]
                bad = np.where(np.abs(x - y) > at + rt * np.abs(y))
            sk = skip_status if k in ('status', 'setting') else (skip_flow if k in ('flowrate', 'velocity') else None)
            if sk and len(bad[0]):
                keep = [n_ for n_ in range(len(bad[0])) if (times[int(bad[0][n_])], cols[int(bad[1][n_])]) not in sk]
                bad = (bad[0][keep], bad[1][keep])
            if len(bad[0]):
                i, j = int(bad[0][0]), int(bad[1][0])
                out.append(V(label + '.differs', grp + '.' + k,
                             't=%d %s: %r vs %r (n=%d)' % (times[i], cols[j], float(x[i, j]), float(y[i, j]), len(bad[0]))))
    return out
