"""Greedy delta-debugger over scenarios (DESIGN.md 3.5).  A candidate is kept iff examining it
still yields a violation with the same signature (oracle, sig)."""
import copy

from . import world


def _connected_ok(scn):
    """every node has a path (ignoring status) to a reservoir or tank, each link joins existing nodes"""
    ids = set(n['id'] for n in scn['nodes'])
    if not ids:
        return False
    adj = {i: set() for i in ids}
    for l in scn['links']:
        if l['a'] not in ids or l['b'] not in ids or l['a'] == l['b']:
            return False
        adj[l['a']].add(l['b'])
        adj[l['b']].add(l['a'])
    src = [n['id'] for n in scn['nodes'] if n['type'] in ('R', 'T')]
    if not src or not any(n['type'] == 'J' for n in scn['nodes']):
        return False
    seen = set(src)
    todo = list(src)
    while todo:
        x = todo.pop()
        for y in adj[x]:
            if y not in seen:
                seen.add(y)
                todo.append(y)
    return seen == ids


def _refs_ok(scn):
    nid = set(n['id'] for n in scn['nodes'])
    lid = set(l['id'] for l in scn['links'])

    def cond_ok(c):
        if c['t'] in ('and', 'or'):
            return cond_ok(c['a']) and cond_ok(c['b'])
        if c['t'] == 'level':
            return c['tank'] in nid
        if c['t'] == 'pressure':
            return c['node'] in nid
        return True
    for c in scn.get('controls', []):
        if not cond_ok(c['cond']):
            return False
        for a in c['then'] + c.get('else', []):
            if a['link'] not in lid:
                return False
    for lk in scn.get('leaks', []):
        if lk['node'] not in nid:
            return False
    pats = set(scn.get('patterns', {}))
    curves = set(scn.get('curves', {}))
    for n in scn['nodes']:
        if n['type'] == 'J':
            for d in n.get('demands', []):
                if d[1] is not None and d[1] not in pats:
                    return False
        if n['type'] == 'R' and n.get('pattern') and n['pattern'] not in pats:
            return False
        if n['type'] == 'T' and n.get('vol_curve') and n['vol_curve'] not in curves:
            return False
    for l in scn['links']:
        if l['type'] == 'pump' and l.get('kind') == 'HEAD' and l['curve'] not in curves:
            return False
    return True


def candidates(scn):
    """yield (description, candidate) - simpler scenarios"""
    # single-element removals
    for key in ('controls', 'leaks'):
        for i in range(len(scn.get(key, []))):
            s = copy.deepcopy(scn)
            del s[key][i]
            yield 'drop %s[%d]' % (key, i), s
    for i, l in enumerate(scn['links']):
        s = copy.deepcopy(scn)
        del s['links'][i]
        s['controls'] = [c for c in s.get('controls', []) if all(a['link'] != l['id'] for a in c['then'] + c.get('else', []))]
        yield 'drop link %s' % l['id'], s
    for i, n in enumerate(scn['nodes']):
        s = copy.deepcopy(scn)
        del s['nodes'][i]
        s['links'] = [l for l in s['links'] if n['id'] not in (l['a'], l['b'])]
        lid = set(l['id'] for l in s['links'])
        s['controls'] = [c for c in s.get('controls', []) if all(a['link'] in lid for a in c['then'] + c.get('else', []))]
        s['leaks'] = [k for k in s.get('leaks', []) if k['node'] != n['id']]
        yield 'drop node %s' % n['id'], s
    # simplifications
    for i, n in enumerate(scn['nodes']):
        if n['type'] == 'J' and len(n.get('demands', [])) > 1:
            s = copy.deepcopy(scn)
            s['nodes'][i]['demands'] = s['nodes'][i]['demands'][:1]
            yield 'one demand %s' % n['id'], s
        if n['type'] == 'J' and n.get('pdd'):
            s = copy.deepcopy(scn)
            del s['nodes'][i]['pdd']
            yield 'no pdd override %s' % n['id'], s
        if n['type'] == 'T' and n.get('vol_curve'):
            s = copy.deepcopy(scn)
            s['nodes'][i]['vol_curve'] = None
            yield 'cylinder %s' % n['id'], s
        if n['type'] == 'R' and n.get('pattern'):
            s = copy.deepcopy(scn)
            s['nodes'][i]['pattern'] = None
            yield 'const head %s' % n['id'], s
    for p in sorted(scn.get('patterns', {})):
        if scn['patterns'][p] != [1.0]:
            s = copy.deepcopy(scn)
            s['patterns'][p] = [1.0]
            yield 'const pattern %s' % p, s
    for i, l in enumerate(scn['links']):
        if l['type'] == 'pipe' and (l.get('minor') or l.get('cv')):
            s = copy.deepcopy(scn)
            s['links'][i]['minor'] = 0.0
            s['links'][i]['cv'] = False
            yield 'plain pipe %s' % l['id'], s
    o = scn['options']
    hyd = o['hyd_step']
    if o['duration'] > 2 * hyd:
        s = copy.deepcopy(scn)
        s['options']['duration'] = max(hyd, (o['duration'] // 2 // hyd) * hyd)
        yield 'halve duration', s
    if o['duration'] > hyd:
        s = copy.deepcopy(scn)
        s['options']['duration'] = o['duration'] - hyd if o['duration'] % hyd == 0 else (o['duration'] // hyd) * hyd
        yield 'one step less', s
    defaults = {'pattern_start': 0, 'start_clocktime': 0, 'multiplier': 1.0, 'report_step': hyd, 'demand_model': 'DD',
                'pattern_step': 3600, 'rule_step': hyd}
    for k, v in defaults.items():
        if o.get(k, v) != v:
            s = copy.deepcopy(scn)
            s['options'][k] = v
            if k == 'demand_model':
                for kk in ('pmin', 'preq', 'pexp'):
                    s['options'].pop(kk, None)
            yield 'default %s' % k, s
    if scn.get('run', {}).get('hw_approx', 'default') != 'default':
        s = copy.deepcopy(scn)
        s['run']['hw_approx'] = 'default'
        yield 'default hw', s


def prune_unused(scn):
    used_p = set()
    used_c = set()
    for n in scn['nodes']:
        if n['type'] == 'J':
            for d in n.get('demands', []):
                if d[1]:
                    used_p.add(d[1])
        if n['type'] == 'R' and n.get('pattern'):
            used_p.add(n['pattern'])
        if n['type'] == 'T' and n.get('vol_curve'):
            used_c.add(n['vol_curve'])
    for l in scn['links']:
        if l['type'] == 'pump':
            if l.get('kind') == 'HEAD':
                used_c.add(l['curve'])
            if l.get('pattern'):
                used_p.add(l['pattern'])
    dp = scn['options'].get('default_pattern')
    if dp:
        used_p.add(dp)
    scn['patterns'] = {k: v for k, v in scn.get('patterns', {}).items() if k in used_p}
    scn['curves'] = {k: v for k, v in scn.get('curves', {}).items() if k in used_c}
    return scn


def shrink(scn, same, budget=300, extra_candidates=None, log=None):
    """same(candidate) -> True iff the candidate still shows the target violation."""
    cur = copy.deepcopy(scn)
    used = 0
    progress = True
    while progress and used < budget:
        progress = False
        gens = [candidates(cur)]
        if extra_candidates is not None:
            gens.insert(0, extra_candidates(cur))
        for g in gens:
            for desc, cand in g:
                if used >= budget:
                    break
                if not _connected_ok(cand) or not _refs_ok(cand):
                    continue
                used += 1
                try:
                    ok = same(cand)
                except Exception:  # noqa
                    ok = False
                if ok:
                    cur = prune_unused(cand)
                    progress = True
                    if log:
                        log('shrink: ' + desc)
                    break
            if progress:
                break
    return cur, used
