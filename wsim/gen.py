"""Seeded scenario generators (swarm style, see DESIGN.md 3.2).

gen_world(rng, cfg) draws a well-formed small network + options.  Event generators
(time controls, level controls, rules, leaks, isolation schedules) are layered on top by
the per-property profiles in profiles.py.
"""
import math

G = 9.81

HYD_STEPS = [300, 600, 900, 1200, 1800, 3600, 7200]


def base_cfg():
    return dict(
        nj=(2, 8), p_loop=0.5, p_parallel=0.25, n_tanks=[(0, 4), (1, 4), (2, 1)], p_res2=0.2,
        p_pump_source=0.25, p_power_pump=0.3, pump_points=[(1, 3), (3, 3)],
        n_valves=[(0, 6), (1, 3), (2, 1)], vtypes=['PRV', 'PSV', 'FCV', 'TCV'], p_cv=0.15, p_closed=0.0,
        p_pattern=0.7, p_multi_demand=0.3, p_zero_demand=0.15, p_minor=0.3,
        p_pdd=0.25, p_res_pattern=0.2, p_vol_curve=0.3, p_tank_rev=0.5,
        steps=(4, 24), hyd_steps=HYD_STEPS, p_report_all=0.4, p_report_mult=0.2,
        p_pattern_start=0.3, p_multiplier=0.3, p_clock=0.3, p_dur_off=0.1,
        demand=(0.0005, 0.006),
    )


def _r(x, nd=6):
    return float(round(x, nd))


def gen_world(rng, cfg):
    c = base_cfg()
    c.update(cfg or {})
    scn = {'v': 1, 'nodes': [], 'links': [], 'patterns': {}, 'curves': {}, 'controls': [], 'leaks': [],
           'faults': []}
    # ---------------- options
    hyd = rng.pick(c['hyd_steps'])
    nsteps = rng.irange(*c['steps'])
    duration = hyd * nsteps
    if rng.chance(c['p_dur_off']):
        duration += rng.pick([1, 60, hyd // 2, hyd - 1])
    opt = {'duration': int(duration), 'hyd_step': int(hyd)}
    opt['pattern_step'] = int(rng.pick([hyd, 2 * hyd, 3600, 1800, 7200, 5400]))
    if rng.chance(c['p_report_all']):
        opt['report_step'] = 'ALL'
    elif rng.chance(c['p_report_mult']):
        opt['report_step'] = int(hyd * rng.pick([2, 3]))
    else:
        opt['report_step'] = int(hyd)
    opt['rule_step'] = int(rng.pick([hyd, max(60, hyd // 2), max(60, hyd // 5), 360, 60]))
    if rng.chance(c['p_clock']):
        opt['start_clocktime'] = int(rng.pick([3600, 7200, 6 * 3600, 12 * 3600, 23 * 3600, 1800, 5400, 86399, 43230]))
    else:
        opt['start_clocktime'] = 0
    if rng.chance(c['p_pattern_start']):
        opt['pattern_start'] = int(rng.pick([opt['pattern_step'], opt['pattern_step'] // 2, 600, 3 * opt['pattern_step'], 100]))
    else:
        opt['pattern_start'] = 0
    opt['multiplier'] = rng.pick([0.5, 1.5, 2.0, 0.8]) if rng.chance(c['p_multiplier']) else 1.0
    pdd = rng.chance(c['p_pdd'])
    opt['demand_model'] = 'PDD' if pdd else 'DD'
    if pdd:
        pmin = rng.pick([0.0, 0.0, 2.0, 5.0])
        opt['pmin'] = pmin
        opt['preq'] = pmin + rng.pick([5.0, 10.0, 20.0, 0.5])
        opt['pexp'] = rng.pick([0.5, 0.5, 0.5, 1.0, 0.3, 0.75])
    opt['trials'] = 200
    scn['options'] = opt

    # ---------------- patterns
    def new_pattern(lo=0.3, hi=1.7, n=None):
        name = 'P%d' % (len(scn['patterns']) + 1)
        n = n or rng.irange(2, 9)
        scn['patterns'][name] = [_r(rng.uni(lo, hi), 3) for _ in range(n)]
        return name

    # ---------------- nodes
    H0 = rng.uni(55.0, 90.0, 2)
    nj = rng.irange(*c['nj'])
    pump_source = rng.chance(c['p_pump_source'])
    juncs = []
    for i in range(nj):
        jid = 'J%d' % (i + 1)
        dem = []
        if not rng.chance(c['p_zero_demand']):
            nd = 1 + (1 if rng.chance(c['p_multi_demand']) else 0) + (1 if rng.chance(c['p_multi_demand'] / 3) else 0)
            for k in range(nd):
                base = rng.uni(*c['demand'], nd=6)
                pat = None
                if rng.chance(c['p_pattern']):
                    pat = rng.pick(sorted(scn['patterns'])) if (scn['patterns'] and rng.chance(0.5)) else new_pattern()
                cat = rng.pick([None, 'dom', 'ind', 'A'])
                dem.append([base, pat, cat])
            if len(dem) >= 2 and rng.chance(c.get('p_first_zero', 0.08)):
                dem[0][0] = 0.0        # a junction whose first demand entry is zero and whose later entries are not
        juncs.append({'id': jid, 'type': 'J', 'elev': rng.uni(0.0, 25.0, 2), 'demands': dem})
    total_demand = sum(d[0] for j in juncs for d in j['demands']) * max(1.0, opt['multiplier']) * 1.3 + 1e-3

    res1 = {'id': 'R1', 'type': 'R', 'head': (rng.uni(0.0, 20.0, 2) if pump_source else H0), 'pattern': None}
    if rng.chance(c['p_res_pattern']) and not pump_source:
        res1['pattern'] = new_pattern(0.92, 1.05)
    scn['nodes'].append(res1)
    scn['nodes'].extend(juncs)

    lid = [0]

    def new_link_id(prefix):
        lid[0] += 1
        return '%s%d' % (prefix, lid[0])

    def pipe(a, b, fat=False, **kw):
        l = {'id': new_link_id('p'), 'type': 'pipe', 'a': a, 'b': b,
             'len': rng.logu(50.0, 3000.0, 4), 'diam': (rng.uni(0.3, 0.6, 3) if fat else rng.pick([0.1, 0.15, 0.2, 0.25, 0.3, 0.4, 0.5])),
             'rough': float(rng.pick([80, 100, 120, 130, 140, 150])), 'minor': 0.0, 'status': 'OPEN', 'cv': False}
        if rng.chance(c['p_minor']):
            l['minor'] = rng.pick([0.5, 2.0, 10.0, 50.0])
        l.update(kw)
        return l

    def head_curve(qd, hd):
        name = 'C%d' % (len(scn['curves']) + 1)
        npts = rng.wpick(c['pump_points'])
        if npts == 1:
            pts = [[_r(qd), _r(hd, 3)]]
        elif npts == 2:
            pts = [[_r(qd * 0.5), _r(hd * 1.2, 3)], [_r(qd * 1.5), _r(hd * 0.6, 3)]]
        else:
            pts = [[0.0, _r(hd * rng.uni(1.2, 1.5), 3)], [_r(qd), _r(hd, 3)], [_r(qd * rng.uni(1.6, 2.2)), _r(hd * rng.uni(0.0, 0.5), 3)]]
        scn['curves'][name] = {'type': 'HEAD', 'points': pts}
        return name

    def pump(a, b, qd, hd):
        l = {'id': new_link_id('u'), 'type': 'pump', 'a': a, 'b': b, 'status': 'OPEN', 'speed': 1.0, 'pattern': None}
        if rng.chance(c['p_power_pump']):
            l['kind'] = 'POWER'
            l['power'] = _r(1000.0 * G * qd * hd, 1)
        else:
            l['kind'] = 'HEAD'
            l['curve'] = head_curve(qd, hd)
        return l

    # main feed
    if pump_source:
        scn['links'].append(pump('R1', 'J1', total_demand * rng.uni(1.0, 2.0), H0 - res1['head']))
    else:
        if rng.chance(0.5):
            scn['links'].append(pipe('R1', 'J1', fat=True))
        else:
            scn['links'].append(pipe('J1', 'R1', fat=True))
    # tree
    nvalves = rng.wpick(c['n_valves'])
    valve_slots = set()
    if nj >= 3:
        for _ in range(nvalves):
            valve_slots.add(rng.irange(2, nj))  # junction index (1-based) whose feed link is a valve
    for i in range(2, nj + 1):
        parent = rng.irange(max(1, i - 3), i - 1)
        a, b = 'J%d' % parent, 'J%d' % i
        if i in valve_slots:
            vt = rng.pick(c['vtypes'])
            v = {'id': new_link_id('v'), 'type': 'valve', 'a': a, 'b': b, 'vtype': vt,
                 'diam': rng.pick([0.15, 0.2, 0.3]), 'minor': rng.pick([0.0, 0.0, 1.0]), 'status': 'ACTIVE'}
            ea = juncs[parent - 1]['elev']
            eb = juncs[i - 1]['elev']
            if vt == 'PRV':
                v['setting'] = rng.uni(10.0, max(12.0, H0 - eb - 5.0), 2)
            elif vt == 'PSV':
                v['setting'] = rng.uni(10.0, max(12.0, H0 - ea + 5.0), 2)
            elif vt == 'FCV':
                v['setting'] = rng.uni(0.0005, total_demand, 6)
            else:
                v['setting'] = rng.pick([0.0, 5.0, 50.0, 500.0])
            scn['links'].append(v)
        else:
            if rng.chance(0.3):
                a, b = b, a
            scn['links'].append(pipe(a, b, cv=False))
    # loops / parallel
    if nj >= 3 and rng.chance(c['p_loop']):
        for _ in range(rng.irange(1, 2)):
            i = rng.irange(1, nj)
            j = rng.irange(1, nj)
            if i != j:
                scn['links'].append(pipe('J%d' % i, 'J%d' % j))
    if rng.chance(c['p_parallel']):
        plain = [l for l in scn['links'] if l['type'] == 'pipe']
        if plain:
            l0 = rng.pick(plain)
            a, b = (l0['a'], l0['b']) if rng.chance(0.5) else (l0['b'], l0['a'])
            scn['links'].append(pipe(a, b))
    # check valves on some junction-junction pipes that are not the only feed: choose loop/parallel ones only
    # (a CV on a tree pipe against the flow would starve a district: legal, but then it is isolated-by-hydraulics,
    # which WNTR does not handle as isolation; keep CVs where direction is with the tree flow)
    if rng.chance(c['p_cv']):
        cands = [l for l in scn['links'] if l['type'] == 'pipe' and l['a'].startswith('J') and l['b'].startswith('J')]
        if cands:
            l0 = rng.pick(cands)
            # orient with increasing junction index (flow generally goes from low index to high index)
            ia, ib = int(l0['a'][1:]), int(l0['b'][1:])
            if ia > ib:
                l0['a'], l0['b'] = l0['b'], l0['a']
            l0['cv'] = True
    # tanks
    ntanks = rng.wpick(c['n_tanks'])
    for k in range(ntanks):
        tid = 'T%d' % (k + 1)
        mn = rng.pick([0.0, 0.5, 1.0])
        rngl = rng.uni(2.0, 8.0, 2)
        mx = _r(mn + rngl, 2)
        init = _r(mn + rngl * rng.uni(0.15, 0.85), 2)
        elev = _r(H0 - rng.uni(3.0, 12.0) - init, 2)
        diam = rng.pick([4.0, 6.0, 8.0, 10.0, 15.0, 20.0])
        tank = {'id': tid, 'type': 'T', 'elev': elev, 'init': init, 'min': mn, 'max': mx, 'diam': diam,
                'vol_curve': None, 'overflow': False}
        if rng.chance(c['p_vol_curve']):
            name = 'C%d' % (len(scn['curves']) + 1)
            npts = rng.irange(2, 5)
            lv = [0.0]
            for _ in range(npts - 1):
                lv.append(_r(lv[-1] + (mx + 1.0) / (npts - 1), 3))
            a0 = math.pi * diam ** 2 / 4.0
            vol = [0.0]
            for q in range(1, npts):
                vol.append(_r(vol[-1] + (lv[q] - lv[q - 1]) * a0 * rng.uni(0.5, 1.5), 3))
            scn['curves'][name] = {'type': 'VOLUME', 'points': [[lv[q], vol[q]] for q in range(npts)]}
            tank['vol_curve'] = name
        scn['nodes'].append(tank)
        j = 'J%d' % rng.irange(1, nj)
        if rng.chance(c['p_tank_rev']):
            tp = pipe(tid, j)
        else:
            tp = pipe(j, tid)
        tp['len'] = max(tp['len'], 200.0)
        # explicit-Euler stability of the tank/pipe pair: the tank time constant A/(dQ/dH) must exceed the
        # hydraulic step, otherwise the trajectory is chaotic (measured: 30x error growth per control cycle)
        # and no two runs of the same world can be compared.  Size the tank (then thin the pipe) accordingly.
        for _ in range(8):
            R = 10.667 * tp['rough'] ** -1.852 * tp['diam'] ** -4.871 * tp['len']
            q5 = (1.0 / R) ** (1.0 / 1.852)          # flow at 1 m head difference (steepest realistic slope)
            dqdh = 0.54 * q5 / 1.0
            need_area = 1.5 * hyd * dqdh
            need_diam = math.sqrt(4.0 * need_area / math.pi)
            if need_diam <= 40.0:
                break
            tp['diam'] = max(0.05, round(tp['diam'] * 0.7, 3))
            tp['len'] = round(tp['len'] * 1.5, 1)
        if tank['diam'] < need_diam:
            scale = (need_diam / tank['diam']) ** 2
            tank['diam'] = _r(math.ceil(need_diam), 1)
            if tank['vol_curve']:
                pts = scn['curves'][tank['vol_curve']]['points']
                for p_ in pts:
                    p_[1] = _r(p_[1] * scale, 3)
        scn['links'].append(tp)
    if rng.chance(c['p_res2']):
        scn['nodes'].append({'id': 'R2', 'type': 'R', 'head': _r(H0 + rng.uni(-5.0, 5.0), 2), 'pattern': None})
        j = 'J%d' % rng.irange(1, nj)
        scn['links'].append(pipe('R2', j) if rng.chance(0.5) else pipe(j, 'R2'))
    if pdd and rng.chance(0.4):
        for j in juncs:
            if rng.chance(0.4):
                p = {}
                if rng.chance(0.6):
                    p['pmin'] = rng.pick([0.0, 1.0, 3.0])
                if rng.chance(0.6):
                    p['preq'] = p.get('pmin', opt['pmin']) + rng.pick([4.0, 15.0, 30.0])
                if rng.chance(0.6):
                    p['pexp'] = rng.pick([0.5, 1.0, 0.4])
                # keep pmin<preq whatever subset is overridden
                pm = p.get('pmin', opt['pmin'])
                pr = p.get('preq', opt['preq'])
                if pm < pr and p:
                    j['pdd'] = p
    scn['run'] = {'hw_approx': 'default' if rng.chance(0.75) else 'piecewise', 'solver_options': {},
                  'backup': None, 'convergence_error': False}
    scn['meta'] = {'H0': H0, 'total_demand': total_demand}
    return scn


# ---------------------------------------------------------------------------------------------
# event layers
# ---------------------------------------------------------------------------------------------

def plain_pipes(scn, away_from_tanks=True, not_bridge_ok=True):
    """pipes between two junctions (status changes on them isolate at most junctions)."""
    out = []
    for l in scn['links']:
        if l['type'] != 'pipe' or l.get('cv'):
            continue
        if away_from_tanks and not (l['a'].startswith('J') and l['b'].startswith('J')):
            continue
        out.append(l)
    return out


def time_instant(rng, scn, bias=None):
    """boundary-biased instant in [0, duration]"""
    o = scn['options']
    hyd, dur, rs = o['hyd_step'], o['duration'], o.get('rule_step', 360)
    k = rng.irange(0, max(1, dur // hyd))
    kind = bias or rng.wpick([('grid', 4), ('rulegrid', 2), ('off', 4), ('zero', 1), ('end', 1), ('pm1', 2)])
    if kind == 'grid':
        t = k * hyd
    elif kind == 'rulegrid':
        t = rng.irange(0, max(1, dur // rs)) * rs
    elif kind == 'off':
        t = k * hyd + rng.irange(1, hyd - 1)
    elif kind == 'zero':
        t = 0
    elif kind == 'end':
        t = dur
    else:
        t = k * hyd + rng.pick([-1, 1])
    return int(min(max(t, 0), dur))


def add_simple_time_controls(rng, scn, n, p_clock=0.25, targets=None, bias=None, p_priority=0.0):
    """n simple controls  AT TIME t / AT CLOCKTIME c  on link status (or valve setting)."""
    tg = targets if targets is not None else plain_pipes(scn)
    if not tg:
        tg = [l for l in scn['links'] if l['type'] == 'pipe' and not l.get('cv')]
    if not tg:
        return 0
    made = 0
    for _ in range(n):
        l = rng.pick(tg)
        t = time_instant(rng, scn, bias)
        name = 'tc%d' % (len(scn['controls']) + 1)
        if rng.chance(p_clock):
            c = (t + scn['options'].get('start_clocktime', 0)) % 86400
            cond = {'t': 'clock', 'rel': '=', 'thr': int(c)}
        else:
            cond = {'t': 'simtime', 'rel': '=', 'thr': int(t)}
        if l['type'] == 'valve' and rng.chance(0.5):
            act = {'link': l['id'], 'attr': 'setting', 'value': l['setting'] * rng.pick([0.5, 1.5, 2.0])}
        else:
            act = {'link': l['id'], 'attr': 'status', 'value': rng.pick(['OPEN', 'CLOSED', 'CLOSED'])}
        scn['controls'].append({'name': name, 'kind': 'simple', 'cond': cond, 'then': [act],
                                'priority': rng.irange(0, 6) if (p_priority and rng.chance(p_priority)) else 3})
        made += 1
    return made


def add_level_controls(rng, scn, n, hysteresis_p=0.6):
    """simple controls IF TANK level ABOVE/BELOW x THEN LINK status"""
    tanks = [nd for nd in scn['nodes'] if nd['type'] == 'T']
    if not tanks:
        return 0
    tg = [l for l in scn['links'] if (l['type'] == 'pipe' and not l.get('cv')) or l['type'] == 'pump']
    if not tg:
        return 0
    made = 0
    while made < n:
        tk = rng.pick(tanks)
        l = rng.pick(tg)
        lo = _r(tk['min'] + (tk['max'] - tk['min']) * rng.uni(0.1, 0.5), 3)
        hi = _r(tk['min'] + (tk['max'] - tk['min']) * rng.uni(0.5, 0.9), 3)
        if rng.chance(0.15):
            lo = tk['init']
        # pumps/feeds: open below lo, close above hi
        nm = 'lc%d' % (len(scn['controls']) + 1)
        scn['controls'].append({'name': nm, 'kind': 'simple', 'cond': {'t': 'level', 'tank': tk['id'], 'attr': 'level', 'rel': '<', 'thr': lo},
                                'then': [{'link': l['id'], 'attr': 'status', 'value': 'OPEN'}], 'priority': 3})
        made += 1
        if rng.chance(hysteresis_p):
            nm = 'lc%d' % (len(scn['controls']) + 1)
            scn['controls'].append({'name': nm, 'kind': 'simple', 'cond': {'t': 'level', 'tank': tk['id'], 'attr': 'level', 'rel': '>', 'thr': hi},
                                    'then': [{'link': l['id'], 'attr': 'status', 'value': 'CLOSED'}], 'priority': 3})
            made += 1
    return made


def add_leaks(rng, scn, n, tanks=True, p_removed=0.1):
    """leaks on junctions (and tanks) with windows on/off the hydraulic grid"""
    cands = [nd for nd in scn['nodes'] if nd['type'] == 'J' or (tanks and nd['type'] == 'T')]
    used = set(l['node'] for l in scn['leaks'])
    made = 0
    for _ in range(n):
        free = [nd for nd in cands if nd['id'] not in used]
        if not free:
            break
        nd = rng.pick(free)
        used.add(nd['id'])
        start = time_instant(rng, scn)
        kind = rng.wpick([('window', 6), ('open_end', 2), ('end_before_start', 1), ('no_start', 1), ('from_zero', 2)])
        if kind == 'window':
            end = min(scn['options']['duration'] * 2, start + rng.pick([1, scn['options']['hyd_step'], 2 * scn['options']['hyd_step'] + 7, 5000, 123]))
        elif kind == 'open_end':
            end = None
        elif kind == 'end_before_start':
            end = start          # empty window: never active
        elif kind == 'no_start':
            end = start
            start = None
        else:
            start = 0
            end = time_instant(rng, scn)
            if end == 0:
                end = None
        scn['leaks'].append({'node': nd['id'], 'area': rng.logu(1e-6, 5e-3, 4), 'cd': rng.pick([0.75, 0.6, 1.0, 0.3]),
                             'start': start, 'end': end, 'removed': rng.chance(p_removed)})
        made += 1
    return made


def _status_action(rng, link):
    return {'link': link['id'], 'attr': 'status', 'value': rng.pick(['OPEN', 'CLOSED'])}


def add_rules(rng, scn, n, kinds=('time', 'clock', 'level'), targets=None, on_rule_grid=True, p_else=0.4, p_compound=0.3):
    """rules IF <cond> THEN <actions> [ELSE <actions>] PRIORITY p"""
    o = scn['options']
    rs = o.get('rule_step', 360)
    dur = o['duration']
    tg = targets if targets is not None else plain_pipes(scn)
    if not tg:
        tg = [l for l in scn['links'] if l['type'] == 'pipe' and not l.get('cv')]
    tanks = [nd for nd in scn['nodes'] if nd['type'] == 'T']
    if not tg:
        return 0

    def simple_cond():
        k = rng.pick([x for x in kinds if x != 'level' or tanks])
        if k == 'time':
            t = rng.irange(0, max(1, dur // rs)) * rs if on_rule_grid else time_instant(rng, scn)
            return {'t': 'simtime', 'rel': rng.pick(['>=', '<', '=', '>', '<=']), 'thr': int(t)}
        if k == 'clock':
            t = rng.irange(0, max(1, dur // rs)) * rs if on_rule_grid else time_instant(rng, scn)
            c = (t + o.get('start_clocktime', 0)) % 86400
            return {'t': 'clock', 'rel': rng.pick(['>=', '<', '=', '>', '<=']), 'thr': int(c)}
        tk = rng.pick(tanks)
        thr = _r(tk['min'] + (tk['max'] - tk['min']) * rng.uni(0.1, 0.9), 3)
        return {'t': 'level', 'tank': tk['id'], 'attr': 'level', 'rel': rng.pick(['<', '>', '<=', '>=']), 'thr': thr}
    made = 0
    for _ in range(n):
        cond = simple_cond()
        if rng.chance(p_compound):
            cond = {'t': rng.pick(['and', 'or']), 'a': cond, 'b': simple_cond()}
        l = rng.pick(tg)
        then = [_status_action(rng, l)]
        els = []
        if rng.chance(p_else):
            els = [{'link': l['id'], 'attr': 'status', 'value': 'OPEN' if then[0]['value'] == 'CLOSED' else 'CLOSED'}]
        name = 'rule%d' % (len(scn['controls']) + 1)
        scn['controls'].append({'name': name, 'kind': 'rule', 'cond': cond, 'then': then, 'else': els,
                                'priority': rng.pick([0, 1, 2, 3, 3, 4, 5, 6])})
        made += 1
    return made


def add_source_tcv(rng, scn):
    """a throttle control valve attached directly to a tank or reservoir (allowed for TCVs), in parallel with an existing pipe of that source
    so that connectivity does not depend on it; either orientation"""
    src = [n['id'] for n in scn['nodes'] if n['type'] in ('T', 'R')]
    cands = [l for l in scn['links'] if l['type'] == 'pipe' and not l.get('cv') and ((l['a'] in src) != (l['b'] in src))]
    if not cands:
        return None
    l0 = rng.pick(cands)
    a, b = (l0['a'], l0['b']) if rng.chance(0.5) else (l0['b'], l0['a'])
    n = 1 + sum(1 for l in scn['links'] if l['id'].startswith('vs'))
    v = {'id': 'vs%d' % n, 'type': 'valve', 'a': a, 'b': b, 'vtype': 'TCV', 'diam': rng.pick([0.15, 0.2, 0.3]), 'minor': rng.pick([0.0, 1.0]),
         'status': 'ACTIVE', 'setting': rng.pick([5.0, 50.0, 500.0])}
    scn['links'].append(v)
    return v


def add_valve_bypass(rng, scn):
    """a bypass pipe between the two nodes of a valve, closed by a time control during the run (and sometimes opened again): while it is
    closed the valve - usually Active, not Open - is the only link of that node pair that still connects"""
    valves = [l for l in scn['links'] if l['type'] == 'valve' and l['a'].startswith('J') and l['b'].startswith('J')
              and not any(x is not l and frozenset((x['a'], x['b'])) == frozenset((l['a'], l['b'])) for x in scn['links'])]
    if not valves:
        return None
    v = rng.pick(valves)
    a, b = (v['a'], v['b']) if rng.chance(0.5) else (v['b'], v['a'])
    n = 1 + sum(1 for l in scn['links'] if l['id'].startswith('bp'))
    bp = {'id': 'bp%d' % n, 'type': 'pipe', 'a': a, 'b': b, 'len': _r(rng.uni(20.0, 300.0), 1), 'diam': rng.pick([0.15, 0.2, 0.3]),
          'rough': float(rng.pick([100, 120, 140])), 'minor': 0.0, 'status': 'OPEN', 'cv': False}
    scn['links'].insert(scn['links'].index(v) + (1 if rng.chance(0.5) else 0), bp)
    t1 = time_instant(rng, scn)
    scn['controls'].append({'name': 'bpc%d' % n, 'kind': 'simple', 'cond': {'t': 'simtime', 'rel': '=', 'thr': int(t1)},
                            'then': [{'link': bp['id'], 'attr': 'status', 'value': 'CLOSED'}], 'priority': 3})
    if rng.chance(0.4):
        t2 = time_instant(rng, scn)
        if t2 > t1:
            scn['controls'].append({'name': 'bpo%d' % n, 'kind': 'simple', 'cond': {'t': 'simtime', 'rel': '=', 'thr': int(t2)},
                                    'then': [{'link': bp['id'], 'attr': 'status', 'value': 'OPEN'}], 'priority': 3})
    return bp
