"""known_findings.json matching (DESIGN.md 3.7).  The file is read-only at run time."""
import json
import os
import re

VERIF = os.path.dirname(os.path.dirname(os.path.abspath(__file__)))
PATH = os.path.join(VERIF, 'known_findings.json')


def load():
    if not os.path.exists(PATH):
        return []
    with open(PATH) as fh:
        return json.load(fh).get('findings', [])


def match(findings, prop, v):
    """return the open finding that this violation is an instance of, else None"""
    for f in findings:
        if f.get('status') != 'open' or f.get('property') != prop:
            continue
        oracle = str(v['oracle'])
        if oracle.endswith('.after_edit'):
            oracle = oracle[:-len('.after_edit')]      # the same oracle evaluated on the second run of a run/edit/reset/rerun history
        if f.get('oracle') != oracle:
            continue
        if re.fullmatch(f.get('sig', '.*'), str(v['sig'])) is None:
            continue
        need = f.get('detail_contains')
        if need and need not in str(v.get('detail', '')):
            continue
        return f
    return None
