"""Entry point:  python -m wsim.cli <PROPERTY> [--tier quick|thorough] [--seed N] [--runs N]
                                   [--replay FILE] [--workers N] [--no-shrink]

exit 0: property held on everything explored (known findings are listed, not alarms)
exit 1: VIOLATION property=<id> replay=<path>
exit 2: harness error (build failure, harness exception, wall timeout) - never a verdict
"""
import argparse
import json
import os
import sys
import time

VERIF = os.path.dirname(os.path.dirname(os.path.abspath(__file__)))


def _job(arg):
    pid, tier, master, idx = arg
    from . import rng as _rng
    from .props import get
    P = get(pid)
    seed, r = _rng.run_rng(master, pid, idx)
    scn = P.make(r, tier)
    scn['seed'] = seed
    scn['index'] = idx
    scn['property'] = pid
    v = P.examine(scn, tier)
    v['seed'] = seed
    v['index'] = idx
    return v


def _examine_job(arg):
    pid, tier, scn = arg
    from .props import get
    return get(pid).examine(scn, tier)


def regenerate(pid, tier, master, idx):
    from . import rng as _rng
    from .props import get
    P = get(pid)
    seed, r = _rng.run_rng(master, pid, idx)
    scn = P.make(r, tier)
    scn['seed'] = seed
    scn['index'] = idx
    scn['property'] = pid
    return scn


def sigkey(v):
    return (v['oracle'], str(v['sig']))


def main(argv=None):
    ap = argparse.ArgumentParser()
    ap.add_argument('prop')
    ap.add_argument('--tier', default=os.environ.get('VERIF_TIER', 'quick'))
    ap.add_argument('--seed', type=int, default=None)
    ap.add_argument('--runs', type=int, default=None)
    ap.add_argument('--replay', default=None)
    ap.add_argument('--workers', type=int, default=None)
    ap.add_argument('--no-shrink', action='store_true')
    ap.add_argument('--wall', type=int, default=None, help='batch wall cap in seconds')
    ap.add_argument('--no-evidence', action='store_true')
    ap.add_argument('--dump-digests', default=None, help='write one line per case (index digest outcome signatures) for the determinism self-test')
    a = ap.parse_args(argv)
    pid = a.prop.upper()
    tier = a.tier if a.tier in ('quick', 'thorough') else 'quick'
    master = a.seed if a.seed is not None else int(os.environ.get('VERIF_SEED', '20260928') or 20260928)
    print('wsim: property=%s tier=%s VERIF_SEED=%d repo=%s' % (pid, tier, master, os.environ.get('VERIF_REPO', '/repo')))
    sys.stdout.flush()
    t0 = time.time()
    from . import build
    try:
        build.install()
    except Exception as e:  # noqa
        print('HARNESS-ERROR: cannot build/import the working tree: %s' % (e,))
        return 2
    from . import runner, findings, evidence, shrink as shr, world
    from .props import get
    P = get(pid)
    known = findings.load()

    if a.replay:
        with open(a.replay) as fh:
            rp = json.load(fh)
        scn = rp['scenario']
        v = runner.run_isolated(_examine_job, (pid, tier, scn))
        if v['outcome'] in ('harness_error', 'harness_timeout'):
            print('HARNESS-ERROR: %s' % v.get('error'))
            print(v.get('tb', ''))
            return 2
        want = rp.get('signature')
        got = [sigkey(x) for x in v['violations']]
        print('replay outcome=%s digest=%s violations=%d' % (v['outcome'], v.get('digest'), len(got)))
        for x in v['violations'][:10]:
            print('  %s | %s | %s' % (x['oracle'], x['sig'], str(x['detail'])[:300]))
        if v['violations']:
            hit = (want is None) or (tuple(want) in got)
            print('signature reproduced: %s; digest %s' % (hit, 'same' if v.get('digest') == rp.get('digest') else 'differs (%s vs %s)' % (v.get('digest'), rp.get('digest'))))
            unknown = [x for x in v['violations'] if findings.match(known, pid, x) is None]
            if unknown:
                print('VIOLATION property=%s replay=%s' % (pid, os.path.abspath(a.replay)))
                return 1
            for x in v['violations']:
                f = findings.match(known, pid, x)
                print('KNOWN-FINDING: property=%s %s' % (pid, f['what']))
            return 0
        return 0

    # ---------------- regression replays: scenarios of defects that were fixed must stay clean
    regress_viol = []
    rdir = os.path.join(VERIF, 'regress')
    nreg = 0
    if os.path.isdir(rdir):
        for fn in sorted(os.listdir(rdir)):
            if not fn.endswith('.json'):
                continue
            with open(os.path.join(rdir, fn)) as fh:
                rp = json.load(fh)
            if pid not in rp.get('applies_to', [rp.get('property')]):
                continue
            nreg += 1
            v = runner.run_isolated(_examine_job, (pid, tier, rp['scenario']))
            if v.get('outcome') in ('harness_error', 'harness_timeout'):
                print('HARNESS-ERROR: regression replay %s: %s' % (fn, v.get('error')))
                print(v.get('tb', ''))
                return 2
            bad = [x for x in v.get('violations', []) if findings.match(known, pid, x) is None]
            if bad:
                regress_viol.append((fn, bad))
    for fn, bad in regress_viol:
        print('violation (regression replay %s): %s | %s | %s' % (fn, bad[0]['oracle'], bad[0]['sig'], str(bad[0]['detail'])[:300]))
        print('VIOLATION property=%s replay=%s' % (pid, os.path.join(rdir, fn)))

    n = a.runs if a.runs is not None else P.runs(tier)
    items = [(pid, tier, master, i) for i in range(n)]
    last = [0]

    def progress(done, total):
        if time.time() - last[0] > 20:
            last[0] = time.time()
            print('  ... %d/%d cases  %.0fs' % (done, total, time.time() - t0))
            sys.stdout.flush()

    wall = a.wall if a.wall is not None else (P.quick_wall if tier == 'quick' and hasattr(P, 'quick_wall') else None)
    res = runner.explore(_job, items, workers=a.workers, chunk=P.chunk, batch_wall=wall, progress=progress)

    if a.dump_digests:
        with open(a.dump_digests, 'w') as fh:
            for it, v in res:
                fh.write('%d %s %s %s\n' % (it[3], v.get('digest'), v.get('outcome'), sorted(set(sigkey(x) for x in v.get('violations', [])))))
    # ---------------- aggregate
    outcomes = {}
    counters = {}
    digests = set()
    ngr = set()
    sim_seconds = 0
    total_runs = 0
    samples = []
    viol_items = []
    harness = []
    discards = {}
    not_run = 0
    for it, v in res:
        oc = v.get('outcome', 'harness_error')
        if oc == 'not_run':
            not_run += 1
            continue
        outcomes[oc] = outcomes.get(oc, 0) + 1
        if oc in ('harness_error', 'harness_timeout'):
            harness.append((it, v))
            continue
        for k, c in (v.get('counters') or {}).items():
            counters[k] = counters.get(k, 0) + c
        if v.get('nontrivial') and v.get('digest'):
            digests.add(v['digest'])
        for g in v.get('ngrams') or []:
            ngr.add(g)
        sim_seconds += v.get('sim_seconds') or 0
        total_runs += v.get('runs') or 1
        if v.get('discard'):
            discards[v['discard']] = discards.get(v['discard'], 0) + 1
        if v.get('sample') is not None and len(samples) < 4 and v.get('nontrivial'):
            s = dict(v['sample']) if isinstance(v['sample'], dict) else {'case': v['sample']}
            s['index'] = it[3]
            samples.append(s)
        if v.get('violations'):
            viol_items.append((it, v))
    if not samples:
        for it, v in res:
            if v.get('sample') is not None:
                s = dict(v['sample']) if isinstance(v['sample'], dict) else {'case': v['sample']}
                s['index'] = it[3]
                samples.append(s)
                if len(samples) >= 2:
                    break

    # ---------------- violations: known findings vs new
    known_hits = {}
    new = {}
    for it, v in viol_items:
        for x in v['violations']:
            f = findings.match(known, pid, x)
            if f is not None:
                known_hits.setdefault(f['what'], 0)
                known_hits[f['what']] += 1
            else:
                new.setdefault(sigkey(x), []).append((it, v, x))
    for what, cnt in sorted(known_hits.items()):
        print('KNOWN-FINDING: property=%s %s  [%d instances in this run]' % (pid, what, cnt))
    replay_paths = []
    if len(new) > 4:
        print('all new violation signatures (replays are written for the first 4):')
        for key in sorted(new)[:40]:
            print('   %-44s %-34s x%d   e.g. %s' % (key[0], key[1][:34], len(new[key]), str(new[key][0][2]['detail'])[:160].replace('\n', ' ')))
    if new:
        os.makedirs(os.path.join(VERIF, 'replays'), exist_ok=True)
        for key in sorted(new)[:4]:
            it, v, x = new[key][0]
            scn = regenerate(*it)
            target = key
            used = 0
            if not a.no_shrink:
                def same(cand, target=target):
                    vv = runner.run_isolated(_examine_job, (pid, tier, cand))
                    return any(sigkey(y) == target and findings.match(known, pid, y) is None for y in vv.get('violations', []))
                focus = getattr(P, 'focus', None)
                if focus is not None:
                    f = focus(scn, x)
                    if f is not None and same(f):
                        scn = f
                extra = getattr(P, 'shrink_candidates', None)
                gen_c = getattr(P, 'candidates_override', None)
                if gen_c is not None:
                    scn, used = shr.shrink(scn, same, budget=P.shrink_budget if hasattr(P, 'shrink_budget') else 250,
                                           extra_candidates=gen_c, log=None) if False else _shrink_custom(scn, same, gen_c, getattr(P, 'shrink_budget', 250))
                else:
                    scn, used = shr.shrink(scn, same, budget=getattr(P, 'shrink_budget', 250), extra_candidates=extra)
            vv = runner.run_isolated(_examine_job, (pid, tier, scn))
            confirmed = any(sigkey(y) == target for y in vv.get('violations', []))
            det = [y for y in vv.get('violations', []) if sigkey(y) == target]
            path = os.path.join(VERIF, 'replays', '%s-%s.json' % (pid, v['seed']))
            with open(path, 'w') as fh:
                json.dump({'property': pid, 'seed': v['seed'], 'index': it[3], 'master_seed': master, 'tier': tier,
                           'signature': list(target), 'detail': (det[0]['detail'] if det else x['detail']),
                           'digest': vv.get('digest'), 'shrink_candidates_tried': used,
                           'replay_confirmed_in_fresh_process': confirmed,
                           'instances_in_batch': len(new[key]), 'scenario': scn}, fh, indent=1, sort_keys=True, default=str)
            replay_paths.append(path)
            print('violation: oracle=%s sig=%s instances=%d first_index=%d' % (key[0], key[1], len(new[key]), it[3]))
            print('  detail: %s' % str((det[0]['detail'] if det else x['detail']))[:400])
            print('VIOLATION property=%s replay=%s' % (pid, path))
    # ---------------- evidence
    wall_s = time.time() - t0
    evaluated = sum(c for o, c in outcomes.items() if o not in ('harness_error', 'harness_timeout'))
    fired = {k[6:]: c for k, c in counters.items() if k.startswith('fired.')}
    probes = {k: c for k, c in counters.items() if not k.startswith('fired.')}
    doc = {
        'property_id': pid, 'tier': tier, 'seed': master, 'level': P.level,
        'coverage': {
            'evaluations': int(evaluated),
            'distinct_nontrivial': int(len(digests)),
            'rule': P.rule,
            'samples': samples,
            'simulated_runs': int(total_runs),
            'simulated_runs_per_hour': int(total_runs / max(wall_s, 1e-6) * 3600),
            'seeds_per_hour': int(evaluated / max(wall_s, 1e-6) * 3600),
            'simulated_seconds_covered': float(sim_seconds),
            'faults_fired_by_kind': fired,
            'probes': probes,
            'distinct_event_3grams': len(ngr),
            'outcomes': outcomes,
            'discarded': discards,
            'not_run_wall_cap': not_run,
            'components': evidence.COMPONENTS if P.engine == 'E1' else getattr(P, 'components', evidence.COMPONENTS),
            'known_findings_hit': known_hits,
            'workers': a.workers or int(os.environ.get('WSIM_WORKERS', os.cpu_count() or 4)),
        },
        'assumptions': list(P.assumptions),
        'wall_s': round(wall_s, 2),
        'violations': len(new) + len(regress_viol),
    }
    doc['coverage']['regression_replays'] = nreg
    if getattr(P, 'exhaustive_per_world', False):
        doc['coverage']['exhaustive_per_world'] = True
    if not a.no_evidence:
        path, err = evidence.write(pid, doc)
        if err:
            print('HARNESS-ERROR: evidence does not validate: %s' % err)
            return 2
    print('summary: cases=%d runs=%d distinct_nontrivial=%d outcomes=%s wall=%.1fs' % (evaluated, total_runs, len(digests), outcomes, wall_s))
    print('  fired=%s' % (fired,))
    print('  probes=%s' % (dict(sorted(probes.items())),))
    if harness:
        for it, v in harness[:5]:
            print('HARNESS-ERROR: index=%d %s' % (it[3], v.get('error')))
            if v.get('tb'):
                print(v['tb'][-1500:])
        return 1 if (new or regress_viol) else 2
    if new or regress_viol:
        return 1
    if evaluated == 0:
        print('HARNESS-ERROR: nothing evaluated')
        return 2
    return 0


def _shrink_custom(scn, same, gen_c, budget):
    import copy
    cur = copy.deepcopy(scn)
    used = 0
    progress = True
    while progress and used < budget:
        progress = False
        for desc, cand in gen_c(cur):
            if used >= budget:
                break
            used += 1
            try:
                ok = same(cand)
            except Exception:  # noqa
                ok = False
            if ok:
                cur = cand
                progress = True
                break
    return cur, used


if __name__ == '__main__':
    sys.exit(main())
