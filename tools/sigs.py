#!/usr/bin/env python3
"""calibration helper: run N cases of a property in-process and print one full example per violation signature
usage: tools/sigs.py C14 0 500 [oracle-substring]"""
import sys, os, json, collections
sys.path.insert(0, os.path.dirname(os.path.dirname(os.path.abspath(__file__))))
from wsim import build
build.install()
from wsim import cli, runner
pid = sys.argv[1]; lo = int(sys.argv[2]); hi = int(sys.argv[3]); pat = sys.argv[4] if len(sys.argv) > 4 else ''
seen = collections.OrderedDict()
for i in range(lo, hi):
    v = runner.run_isolated(cli._job, (pid, 'quick', 20260928, i))
    if v.get('outcome') in ('harness_error', 'harness_timeout'):
        print('HARNESS', i, v.get('error')); print(v.get('tb', '')); continue
    for x in v.get('violations', []):
        k = (x['oracle'], str(x['sig']))
        if pat and pat not in x['oracle']:
            continue
        if k not in seen:
            seen[k] = (i, x)
for k, (i, x) in seen.items():
    print('=' * 100); print(k, 'index', i); print(str(x['detail'])[:1500])
    scn = cli.regenerate(pid, 'quick', 20260928, i)
    if 'ops' in scn and x.get('at') is not None:
        for j, op in enumerate(scn['ops'][:x['at'] + 1]):
            print('   ', j, json.dumps(op)[:220])
