#!/bin/bash
# usage: tools/thorough_all.sh [seed] [properties...]  - runs every thorough tier once (no evidence written); one line per property
cd "$(dirname "$0")/.."
S=${1:-1}; shift 1 2>/dev/null
PROPS=${@:-C15 C14 C13 C12 C01 C02 C06 C07 C08 C09 C04 C05 C16 C11 C10 C03}
for p in $PROPS; do
  out=$(./check $p --tier thorough --seed $S --no-evidence 2>&1); rc=$?
  echo "thorough seed=$S prop=$p rc=$rc $(echo "$out" | grep '^summary' | cut -c1-200)"
  if [ $rc -ne 0 ]; then echo "$out" | grep -v '^  \.\.\.\|dgstrf' | grep 'VIOLATION\|violation:\|detail\|HARNESS' | head -12; fi
done
