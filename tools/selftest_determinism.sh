#!/bin/bash
# Determinism self-test (DESIGN.md 3.6): every property, N cases, run twice in fresh interpreters under different PYTHONHASHSEED and
# worker counts; the per-case (digest, outcome, violation signatures) lists must be identical.
cd "$(dirname "$0")/.."
N=${1:-400}; SEED=${2:-7}
PROPS=${@:3}; PROPS=${PROPS:-C01 C02 C03 C04 C05 C06 C07 C08 C09 C10 C11 C12 C13 C14 C15 C16}
T=$(mktemp -d); bad=0
for p in $PROPS; do
  n=$N; case $p in C10|C16|C11) n=$((N/8));; C03) n=$((N/3));; esac
  PYTHONHASHSEED=0 WSIM_WORKERS=16 ./check $p --runs $n --seed $SEED --no-evidence --no-shrink --dump-digests $T/$p.a >/dev/null 2>&1
  PYTHONHASHSEED=12345 WSIM_WORKERS=3 ./check $p --runs $n --seed $SEED --no-evidence --no-shrink --dump-digests $T/$p.b >/dev/null 2>&1
  if cmp -s $T/$p.a $T/$p.b; then echo "$p: $n cases x 2 runs identical (digest, outcome, signatures)"; else echo "$p: MISMATCH"; diff $T/$p.a $T/$p.b | head -6; bad=1; fi
done
rm -rf $T
exit $bad
