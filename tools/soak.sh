#!/bin/bash
# usage: tools/soak.sh <first seed> <last seed> [tier] [properties...]   - runs every check under many master seeds; prints one line per run
cd "$(dirname "$0")/.."
A=$1; B=$2; TIER=${3:-quick}; shift 3 2>/dev/null
PROPS=${@:-C01 C02 C03 C04 C05 C06 C07 C08 C09 C10 C11 C12 C13 C14 C15 C16}
for s in $(seq $A $B); do
  for p in $PROPS; do
    out=$(./check $p --tier $TIER --seed $s --no-evidence 2>&1); rc=$?
    echo "seed=$s prop=$p rc=$rc $(echo "$out" | grep '^summary' | cut -c1-160)"
    if [ $rc -ne 0 ]; then echo "$out" | grep -v '^  \.\.\.\|dgstrf' | grep 'VIOLATION\|violation:\|detail\|HARNESS' | head -12; fi
  done
done
