#!/usr/bin/env python3
"""usage: tools/mkprompt.py <PROPERTY> <tag> "<ideas already used, one per ';'>"  -> writes /tmp/mut/<tag>.prompt and creates the worktree /tmp/mut/<tag>
The prompt holds only the text of the property (nothing else from /verif)."""
import json, os, subprocess, sys
prop, tag, used = sys.argv[1], sys.argv[2], sys.argv[3] if len(sys.argv) > 3 else ''
here = os.path.dirname(os.path.dirname(os.path.abspath(__file__)))
P = None
for line in open(os.path.join(here, 'properties.jsonl')):
    d = json.loads(line)
    if d['id'] == prop:
        P = d
wt = '/tmp/mut/' + tag
os.makedirs('/tmp/mut/%s.out' % tag, exist_ok=True)
if not os.path.exists(wt):
    subprocess.check_call(['git', '-C', '/repo', 'worktree', 'add', '-q', '--detach', wt, 'HEAD'])
    # compiled extensions are not tracked: copy them from /repo
    subprocess.call('cd /repo && find wntr -name "*.so" | while read f; do cp "$f" "%s/$f"; done' % wt, shell=True)
files = ', '.join(P['anchors']['files'])
txt = open(os.path.join(here, 'tools', 'prompt_template.txt')).read()
txt = txt.replace('@WT@', wt).replace('@ID@', prop).replace('@TITLE@', P['title']).replace('@STATEMENT@', P['statement']) \
         .replace('@QUANT@', P['quantifier']['text']).replace('@FILES@', files)
if used:
    txt += '\n\nOther engineers already produced changes based on these ideas, so pick something DIFFERENT in kind and location: ' + used + \
           '. Aim for a different part of the statement than those ideas touch (read the statement clause by clause and pick a clause they do not concern).'
open('/tmp/mut/%s.prompt' % tag, 'w').write(txt)
print(wt)
