#!/bin/bash
# Sensitivity regression: apply every seeded change to a scratch worktree of /repo's HEAD and run the quick check of the property it breaks.
# Prints one line per change: name, property, exit code (1 = caught).  Scratch worktrees live under $TMPDIR and are removed.
cd "$(dirname "$0")/.."
T=${TMPDIR:-/tmp}/wsim-seeded-$$; mkdir -p $T
for d in seeded/*/; do
  n=$(basename $d); p=$(/venv/bin/python -c "import json;print(json.load(open('$d/meta.json'))['breaks_property'])")
  only=${1:-}; if [ -n "$only" ] && [[ "$n" != *"$only"* ]]; then continue; fi
  wt=$T/$n
  git -C /repo worktree add -f --detach $wt HEAD -q 2>/dev/null
  if ! git -C $wt apply $PWD/$d/patch.diff 2>/dev/null; then echo "$n $p patch-does-not-apply"; git -C /repo worktree remove --force $wt; continue; fi
  out=$(VERIF_REPO=$wt WSIM_CACHE=$T/cache ./check $p --tier quick --no-evidence --no-shrink 2>&1); rc=$?
  echo "$n $p rc=$rc $(echo "$out" | grep '^summary' | sed 's/.*outcomes=//' | cut -c1-80)"
  git -C /repo worktree remove --force $wt
done
rm -rf $T; git -C /repo worktree prune
