#!/bin/bash
# usage: tools/try_mutant.sh <worktree-with-change> <outdir> <PROPERTY> [extra check args]
# confirms the demonstration (fails with the change, passes without) and runs the property's check against the changed tree.
WT=$1; OUT=$2; PROP=$3; shift 3
cd "$WT" || exit 9
git -C "$WT" checkout -q -- . && git -C "$WT" apply "$OUT/patch.diff" || { echo "patch does not apply"; exit 8; }
echo "--- demo with change:"; (cd "$WT" && timeout 300 /venv/bin/python "$OUT/demo.py" 2>&1 | tail -4); echo "exit=${PIPESTATUS[0]}"
git -C "$WT" apply -R "$OUT/patch.diff"
echo "--- demo without change:"; (cd "$WT" && timeout 300 /venv/bin/python "$OUT/demo.py" 2>&1 | tail -2); echo "exit=${PIPESTATUS[0]}"
git -C "$WT" apply "$OUT/patch.diff"
echo "--- check $PROP against the changed tree:"
cd /verif && VERIF_REPO="$WT" ./check "$PROP" --no-evidence "$@" 2>&1 | grep -v "^  \.\.\.\|dgstrf" | grep "VIOLATION\|violation:\|detail\|summary\|HARNESS\|KNOWN" | cut -c1-400 | head -14
echo "check exit=${PIPESTATUS[0]}"
