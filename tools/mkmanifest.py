#!/usr/bin/env python3
"""Regenerate /verif/MANIFEST.json from the table below (kept by hand, one entry per claimed property)."""
import json
import os
import sys

HERE = os.path.dirname(os.path.dirname(os.path.abspath(__file__)))

CLAIMED = {}
NOT_APPLICABLE = {}


def claim(pid, level, technique, text, note, design_ref):
    CLAIMED[pid] = dict(level=level, technique=technique, text=text, note=note, design_ref=design_ref)


exec(open(os.path.join(HERE, 'tools', 'manifest_table.py')).read())

doc = {
    'version': 1,
    'setup_cmd': 'cd /verif && ./setup.sh',
    'hooks': {
        'guard': 'WNTR_VERIF_HOOKS',
        'enable': 'no guarded code was added to /repo: every seam is a module-level name the code looks up at call time '
                  '(wntr.sim.core._solver_helper, wntr.sim.hydraulics.*, wntr.sim.solvers.time, wntr.sim.solvers.sp), an argument the '
                  'API already takes, or the process environment; checks import /repo sources directly and rebuild the two C++ '
                  'extensions from the working tree into /verif/.cache/ext',
        'baseline_off_cmd': 'cd /repo && /venv/bin/python -m pytest -ra -q -p no:cacheprovider --timeout=900 --continue-on-collection-errors wntr/tests',
        'source_commits': [],
        'add_only': True,
    },
    'engines': [
        {'name': 'E1', 'path': 'wsim/runsim.py', 'serves_properties': [p for p in sorted(CLAIMED) if p <= 'C11' or p == 'C16'],
         'kind_free_text': 'deterministic simulation of WNTRSimulator.run_sim: seeded worlds, event schedules in simulated time, '
                           'solver/clock/linear-algebra fault injection at module seams, pause-persist-restart, EPANET 2.2 as replica'},
        {'name': 'E2', 'path': 'wsim/store.py', 'serves_properties': [p for p in sorted(CLAIMED) if p in ('C12', 'C13', 'C14')],
         'kind_free_text': 'model-store state machine: seeded edit histories against a mirror, refused operations and restarts '
                           '(INP/dict/JSON/pickle/deepcopy) as faults inside the history'},
        {'name': 'E3', 'path': 'wsim/amlsim.py', 'serves_properties': [p for p in sorted(CLAIMED) if p == 'C15'],
         'kind_free_text': 'algebraic-model state machine: add/remove/set histories with evaluator-order perturbation against an independent AST'},
    ],
    'checks': [],
    'not_applicable': [],
    'notes': 'See DESIGN.md. Exit 2 from a check means harness error (build failure, harness exception, wall timeout), never a verdict.',
}
for pid in sorted(CLAIMED):
    c = CLAIMED[pid]
    doc['checks'].append({
        'property_id': pid,
        'quick_cmd': './check %s --tier quick' % pid,
        'thorough_cmd': './check %s --tier thorough' % pid,
        'evidence_file': 'evidence/%s.json' % pid,
        'replay_cmd_template': './check %s --replay {path}' % pid,
        'engine': 'E1' if (pid <= 'C11' or pid == 'C16') else ('E2' if pid in ('C12', 'C13', 'C14') else 'E3'),
        'level_claimed': {'category': c['level'], 'text': c['text'], 'design_ref': c['design_ref']},
        'level_note': c['note'],
        'technique': c['technique'],
    })
for pid in sorted(NOT_APPLICABLE):
    if pid not in CLAIMED:
        doc['not_applicable'].append({'property_id': pid, 'reason': NOT_APPLICABLE[pid]})
doc['engines'] = [e for e in doc['engines'] if e['serves_properties']]
path = os.path.join(HERE, 'MANIFEST.json')
with open(path, 'w') as fh:
    json.dump(doc, fh, indent=1)
try:
    import jsonschema
    sp = '/root/.vp/MANIFEST.schema.json'
    if not os.path.exists(sp):
        sp = os.path.join(HERE, 'schemas', 'MANIFEST.schema.json')
    jsonschema.validate(doc, json.load(open(sp)))
    print('MANIFEST.json valid; claimed:', ' '.join(sorted(CLAIMED)), '| not applicable:', ' '.join(x['property_id'] for x in doc['not_applicable']))
except ImportError:
    print('MANIFEST.json written (jsonschema not available, not validated)')
