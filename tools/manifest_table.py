# one claim() per claimed property; NOT_APPLICABLE for the rest (every id C01..C20 must be in exactly one)
TECH = 'deterministic simulation with fault injection'

claim('C16', 'fault_enumeration', TECH + ': seeded worlds x enumerated solver-fault points (time-limit/iteration-limit/singular/line-search '
      'at every solve index, backup solver, trials limit) under a virtual clock',
      'Every solve index of each generated world is failed through the real failure paths of NewtonSolver (virtual clock past TIME_LIMIT, '
      'MAXITER/BT_MAXITER exhaustion, MatrixRankWarning from the linear solve) with and without convergence_error and a backup solver; '
      'termination is bounded by step caps, tables are checked for well-formedness and the reported prefix is compared with the fault-free run. '
      'Exhaustive over fault points per world, sampled over worlds.',
      'Trusted: the taps (monkeypatched module globals), numpy/pandas comparison, the generator producing well-formed worlds; worlds are small (<=9 hydraulic steps).',
      'DESIGN.md section 4 (C16)')

_PENDING = 'check not built yet in this session (planned, see DESIGN.md section 11); not claimed until it runs clean'
for _p in ['C01', 'C02', 'C03', 'C04', 'C05', 'C06', 'C07', 'C08', 'C09', 'C10', 'C11', 'C12', 'C13', 'C14', 'C15']:
    NOT_APPLICABLE[_p] = _PENDING
NOT_APPLICABLE['C17'] = 'pure total functions of (value, unit, parameter): no state, clock, I/O or failure mode for a schedule or fault to act on; deterministic simulation has nothing to vary (DESIGN.md section 7)'
NOT_APPLICABLE['C18'] = 'pure function of (graph, valve layer) returning a labelling: nothing evolves, fails or persists (DESIGN.md section 7)'
NOT_APPLICABLE['C19'] = 'pure model-to-model transformations quantified over inputs and options only: no history, time or fault in the statement (DESIGN.md section 7)'
NOT_APPLICABLE['C20'] = 'closed-form functions of result tables and model data; the one clause touching the engine (DD demand bookkeeping) is decided under C01 (DESIGN.md section 7)'
