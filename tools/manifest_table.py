# one claim() per claimed property; NOT_APPLICABLE for the rest (every id C01..C20 must be in exactly one)
TECH = 'deterministic simulation with fault injection'

claim('C16', 'fault_enumeration', TECH + ': seeded worlds x enumerated solver-fault points (time-limit/iteration-limit/singular/line-search '
      'at every solve index, backup solver, trials limit) under a virtual clock',
      'Every solve index of each generated world (30 %: a world from the generator of another property) is failed through the real failure paths of NewtonSolver (virtual clock past TIME_LIMIT, '
      'MAXITER/BT_MAXITER exhaustion, an exactly singular Jacobian) with and without convergence_error and a backup solver (Newton or scipy fsolve, run for real); '
      'termination is bounded by step caps, tables are checked for well-formedness and the reported prefix is compared with the fault-free run. '
      'Exhaustive over fault points per world, sampled over worlds.',
      'Trusted: the taps (monkeypatched module globals), numpy/pandas comparison, the generator producing well-formed worlds; worlds are small (<=9 hydraulic steps).',
      'DESIGN.md section 4 (C16)')

INV_NOTE = ('Trusted: the taps (monkeypatched module globals), the reference models in wsim/refmodel.py (written from the documentation, '
            'sharing no code with WNTR), numpy/pandas; the final residual norm used to tighten tolerances is read from the real evaluator. '
            'Worlds are small (3-14 nodes); a clean batch is evidence, not proof.')

claim('C01', 'exploration', TECH + ': invariant monitor on every reported row of seeded simulated runs with pause/persist/restart, rescued solver faults and evaluator-order perturbation',
      'Seeded worlds (loops, parallel links, several sources, links declared into/out of tanks, multi-category demands, leaks on junctions and tanks, '
      'DD/PDD, pattern_start, multiplier, report grid/ALL) run under the simulator with faults; every reported row is checked for the junction balance, '
      'tank/reservoir demand = net inflow and the demand-driven bookkeeping identity with an independent pattern evaluation.',
      INV_NOTE, 'DESIGN.md section 4 (C01)')
claim('C02', 'exploration', TECH + ': per-row reference head-flow laws selected by the reported status, on seeded runs with faults',
      'Every reported row x link is compared with the reference law for its type and reported status (Hazen-Williams + minor loss incl. the documented '
      'smoothing term, own 1/2/3-point pump fits, power pumps, PRV/PSV/FCV/TCV active and open laws, no reverse flow in pumps/CV pipes); statuses are '
      'driven by reservoir-head patterns and controls; both HW approximations.',
      INV_NOTE, 'DESIGN.md section 4 (C02)')
claim('C06', 'exploration', TECH + ': explicit-Euler conservation check over every pair of consecutive solved steps, across pause/persist/restart',
      'The stored volume of every tank (cylinder or volume curve, reference volume function) must change by net inflow x dt between consecutive accepted '
      'steps, start at init_level, stay within the limits up to ~2 s of flow and not discharge at min / fill at max (several links per tank, some closed, CV pipes, pumps discharging straight into a tank); run/edit/reset/rerun histories; restarts are placed at grid points so '
      'the Euler chain must be continuous across them.',
      INV_NOTE, 'DESIGN.md section 4 (C06)')
claim('C07', 'exploration', TECH + ': pressure sweeps driven through simulated time, per-row curve check and per-junction monotonicity/continuity over the run history',
      'PDD worlds whose source head pattern walks junction pressures from far below Pmin to far above Preq with samples at the band edges; global and '
      'per-junction parameters; the delivered fraction is compared with the documented curve (bracketed inside the two smoothing bands) and must be '
      'non-decreasing and continuous in pressure over the history.',
      INV_NOTE + ' The schedule dimension adds little for this property (DESIGN.md says so); it is an invariant of reported state on solved networks.', 'DESIGN.md section 4 (C07)')
claim('C08', 'exploration', TECH + ': leak windows on/off the hydraulic grid as timed events, orifice law per reported row, restarts inside the window',
      'Leaks on junctions and tanks with start/end on and off the grid, empty windows, only start/only end, removed leaks, negative pressures, DD/PDD; '
      'every reported row is checked against the window reference (active iff start <= t < end) and Cd*A*sqrt(2gp); with report ALL the window edges must '
      'be solved steps; the leak flag is durable state across pause/pickle/restart.',
      INV_NOTE, 'DESIGN.md section 4 (C08)')
claim('C09', 'exploration', TECH + ': reference BFS reachability compared with the isolation flags at every accepted step of seeded open/close schedules, with restarts while isolated',
      'Schedules of controls open and close links so that districts disconnect and reconnect (bridges, parallel pairs, initially closed links); at every '
      'accepted step the flagged set must equal the complement of reachability over reported statuses, isolated rows must be exact zeros and connected '
      'junctions with demand must not be zeroed; pauses with a new simulator are placed while districts are isolated.',
      INV_NOTE, 'DESIGN.md section 4 (C09)')

claim('C10', 'fault_enumeration', TECH + ': every pause point on the hydraulic grid x persistence {none,pickle,deepcopy} per seeded world, restart = new simulator on durable state only',
      'For each generated world (20 %: a world from the generator of C05/C06/C08/C09) the uninterrupted run is the reference; every grid pause time incl. time 0 is executed with each persistence mode (plus seeded multi-pause '
      'histories): run to the pause, persist the model, continue with a new WNTRSimulator. The concatenated tables must have exactly the uninterrupted index '
      '(no earlier time revisited, checked inside the run too), equal statuses/settings and values within solver-tolerance slack.',
      'Trusted: taps, pickle/deepcopy of the standard library, comparison slack derived from the solver tolerance (DESIGN.md 3.4). Exhaustive over pause points per world, sampled over worlds (<= 24 steps).',
      'DESIGN.md section 4 (C10)')
claim('C11', 'exploration', TECH + ': seeded run/reset/copy/reload/failed-run/aborted-run histories with both simulators, definition digest after every operation',
      'Histories of 3-7 operations (WNTR run after reset, EPANET run in a scratch directory, deepcopy/pickle/JSON-reload and run, run with an injected failing solve, '
      'run aborted by an exception at solve k, run without reset) are executed on generated worlds; the JSON-normalised to_dict must be unchanged after every '
      'operation and every run from the reset state must reproduce the first run.',
      INV_NOTE, 'DESIGN.md section 4 (C11)')

claim('C04', 'exploration', TECH + ': history check of seeded control schedules in simulated time against a reference control timeline, with restarts placed next to control instants',
      'Worlds with 1-6 time controls and time rules on 1-3 targets (AT TIME once or repeating, AT CLOCKTIME daily / once / from day first_day, rules over SYSTEM TIME / CLOCKTIME with =,>=,<=,>,<, '
      'AND/OR, ELSE, priorities; start_clocktime on/off the hour; instants on the hydraulic grid, on the rule grid only, off both, at 0, at the duration, one second apart, '
      'around midnight; report ALL or grid) run under the simulator with pause/persist/restart next to the instants, rescued solver faults and evaluator-order perturbation. '
      'At every accepted step the commanded status/setting of every target must equal the reference timeline, and with report ALL every instant at which the reference '
      'changes a target must be a reported row.',
      INV_NOTE + ' The reference timeline encodes the semantics the statement spells out (and EPANET 2.2 implements); rule timesteps divide the hydraulic timestep.',
      'DESIGN.md section 4 (C04)')

claim('C05', 'exploration', TECH + ': invariant on every reported row of seeded runs whose tank levels and pressures are driven through control thresholds, plus a history check of partial steps, with restarts between crossing and switching',
      'Worlds with tanks, pumps, CV pipes, valves and 1-6 simple conditional controls (tank level/head and junction pressure, above/below, hysteresis pairs, two thresholds '
      'crossed in one step, thresholds at the current level, conflicting controls with different priorities) run under the simulator with pause/persist/restart, rescued solver '
      'faults, small trial limits and evaluator-order perturbation. On every reported row each control whose condition holds beyond a 1e-6 guard band must see its commanded '
      'status/setting on its target, with exactly the exceptions of the statement; over consecutive accepted steps a tank-level control that switched its target must not have '
      'overshot its threshold by more than two seconds of tank flow.',
      INV_NOTE, 'DESIGN.md section 4 (C05)')

E2_NOTE = ('Trusted: the mirror (plain dicts kept by the harness, wsim/store.py) and the interpreter that applies each operation to it; pickle/deepcopy/json of the '
           'standard library. Histories are valid uses of the API (unique names, existing references); <= 40 operations. A clean batch is evidence, not proof.')
claim('C14', 'exploration', TECH + ': seeded edit histories on the real model against a mirror, with refused operations and restarts (pickle/deepcopy/dict/JSON/INP) inside the history',
      'Histories of 8-40 operations (add/remove of every element kind with and without with_control, half of the removals aimed at elements still in use, reassignment of link '
      'end nodes, pump speed pattern and curve, reservoir head pattern, tank volume curve, restarts that keep only a persisted image after which the history continues on the '
      'reloaded model) run on the real WaterNetworkModel and on a mirror; after every operation every name list, count, typed iterator, describe(), link end nodes, '
      'get_links_for_node, to_graph and usage record is compared with the mirror; a refused operation must raise and leave the state digest (to_dict + usage maps + typed sets) unchanged.',
      E2_NOTE, 'DESIGN.md section 5 (C14)')

claim('C13', 'exploration', TECH + ': dict/JSON restarts placed inside seeded edit histories; the history continues on the reloaded model',
      'At every dict/JSON restart of a history (all element kinds, several demands, vertices on every link type, tags, quality and mixing attributes, per-junction PDD, leaks, '
      'sources, curves, simple controls and rules with AND/OR/ELSE/priorities, option changes in every group) the dictionary of the re-created model must equal the original '
      'exactly after the stated normalisations, from_dict(d, append=empty model) must equal from_dict(d), and later operations (incl. INP writes) run on the reloaded model.',
      E2_NOTE + ' The equality itself is a function of the model; what the simulation adds is the population of models reached by histories, the placement of the restart and the continuation after it (DESIGN.md 5).',
      'DESIGN.md section 5 (C13)')
claim('C12', 'exploration', TECH + ': INP(units, version) restarts placed inside seeded edit histories; the history continues on the reloaded model',
      'At every INP restart (10 unit systems x versions 2.0/2.2, seeded) the re-read model must equal the written one on everything the statement lists (structural comparison of '
      'the SI dictionaries, floats to rtol 1e-5 + 3e-7; names the format does not store and the excluded WNTR-only settings are left out), the file written from the second reload '
      'must equal the one written from the first and the second reload must equal the first to 1e-9; later operations run on the reloaded model.',
      E2_NOTE + ' Comparison uses to_dict of both models (WNTR code on both sides; C13 and the mirror views of C14 check to_dict independently).',
      'DESIGN.md section 5 (C12)')

claim('C15', 'exploration', TECH + ': seeded add/remove/re-add/set-value histories on wntr.sim.aml.Model with evaluator-order perturbation, against an independent AST value and forward-mode derivative',
      'Histories of 6-30 operations (variables, parameters, shared sub-expressions, constraints from seeded expression trees over every supported operator incl. reflected operators, '
      'folding shapes and nested powers, conditional constraints with 1-4 inequality branches, ConstraintDicts attached before/after filling, removal and re-adding, refused duplicate '
      'names, values set exactly on branch bounds, allocation noise) run on the real model; at every evaluation point (made square with filler constraints, set_structure called) '
      'residuals, Jacobian entries, get_x and both index permutations are compared with the harness evaluation of the same trees.',
      'Trusted: the harness AST evaluator and its mirror of the operator shortcuts (wsim/amlsim.py), Python float arithmetic. Values stay inside the domain of definition and away from kinks; '
      'trees have depth <= 4. A clean batch is evidence, not proof.', 'DESIGN.md section 6 (C15)')

claim('C03', 'exploration', TECH + ': the two engines as replicas fed the same seeded schedule through INP files in seeded unit systems; differential comparison of EPANET vs EPANET across units, WNTR vs EPANET, and EPANET on the re-read file',
      'Generated worlds in the common feature set are run once by the WNTRSimulator (under the taps, all accepted steps recorded) and by EPANET 2.2 on the INP file WNTR writes in 3 seeded '
      '(thorough: all 10) unit systems, plus on the model re-read from the first file. (a) EPANET results must not depend on the unit system; (b) on healthy worlds WNTR and EPANET must agree at '
      'every report step incl. status timelines; (c) the re-read model must give the results of the file. Comparisons stop at the first report row at which any run comes near a switching point '
      '(control threshold, tank limit, internal status change, partial step), because both engines resolve such instants to the second and legitimately differ afterwards. '
      'Worlds include reverse-drawn twin pipes with a closed window and PRV pressure zones (a tank pushes the valve closed, demand makes it regulate again); a PRV/PSV that WNTR never lets '
      'leave the closed state although its own reported heads satisfy EPANET\'s rule with a metre to spare on two consecutive rows, while EPANET did leave it, is a difference.',
      INV_NOTE + ' EPANET is a binary replica, not rebuilt. Several EPANET behaviours bound the generator (report step = hydraulic step, no rules in worlds with tanks, inequality thresholds 7 s off the rule grid, distinct rule priorities); they are listed in DESIGN.md section 4 (C03).',
      'DESIGN.md section 4 (C03)')

_PENDING = 'check not built yet in this session (planned, see DESIGN.md section 11); not claimed until it runs clean'
for _p in []:
    NOT_APPLICABLE[_p] = _PENDING
NOT_APPLICABLE['C17'] = 'pure total functions of (value, unit, parameter): no state, clock, I/O or failure mode for a schedule or fault to act on; deterministic simulation has nothing to vary (DESIGN.md section 7)'
NOT_APPLICABLE['C18'] = 'pure function of (graph, valve layer) returning a labelling: nothing evolves, fails or persists (DESIGN.md section 7)'
NOT_APPLICABLE['C19'] = 'pure model-to-model transformations quantified over inputs and options only: no history, time or fault in the statement (DESIGN.md section 7)'
NOT_APPLICABLE['C20'] = 'closed-form functions of result tables and model data; the one clause touching the engine (DD demand bookkeeping) is decided under C01 (DESIGN.md section 7)'
