#!/usr/bin/env python3
"""usage: tools/save_mutant.py <outdir of the agent> <name> <property> <detected: yes|no|after-strengthening> "<needs>" "<what I ran / result>" """
import json, os, shutil, sys
out, name, prop, det, needs, ran = sys.argv[1:7]
d = os.path.join(os.path.dirname(os.path.dirname(os.path.abspath(__file__))), 'seeded', name)
os.makedirs(d, exist_ok=True)
for f in ('patch.diff', 'demo.py', 'notes.md'):
    if os.path.exists(os.path.join(out, f)):
        shutil.copy(os.path.join(out, f), os.path.join(d, f))
json.dump({'breaks_property': prop, 'needs_to_manifest': needs, 'detected_by_check': det, 'what_was_run': ran,
           'origin': 'written by a fresh sub-agent that saw only the property text and a scratch worktree of /repo',
           'how_to_replay': 'git -C /repo apply seeded/%s/patch.diff; cd /verif && ./check %s --tier quick; git -C /repo checkout -- .   (or VERIF_REPO=<worktree with the patch> ./check %s)' % (name, prop, prop)},
          open(os.path.join(d, 'meta.json'), 'w'), indent=1)
print('saved', d)
