#!/usr/bin/env python3
"""(re)generate the tail sections 13-17 of DESIGN.md from /tmp-free inputs: tools/design_tail.md (template), seeded/*/meta.json, tools/soak_result.txt"""
import json, os, glob
H=os.path.dirname(os.path.dirname(os.path.abspath(__file__)))
tail=open(os.path.join(H,'tools','design_tail.md')).read()
rows=['| seeded change | property | needs | quick check against the changed tree |','|---|---|---|---|']
for d in sorted(glob.glob(os.path.join(H,'seeded','*'))):
    m=json.load(open(os.path.join(d,'meta.json')))
    rows.append('| %s | %s | %s | %s: %s |' % (os.path.basename(d), m['breaks_property'], m['needs_to_manifest'].replace('|','/'), m['detected_by_check'], m['what_was_run'].replace('|','/')))
det=[json.load(open(os.path.join(d,'meta.json')))['detected_by_check'] for d in sorted(glob.glob(os.path.join(H,'seeded','*')))]
ny=sum(1 for x in det if x=='yes'); na=sum(1 for x in det if x=='after-strengthening'); nn=len(det)-ny-na
tail=tail.replace('SEEDED_COUNTS','Of the %d changes, %d were caught by the check of their property as it stood, %d only after the generator or oracle named in the table was strengthened, %s.' % (len(det), ny, na, ('and %d is not caught by the check of the property it was written for (the table says by which check it is caught instead)' % nn) if nn else 'none is missed now'))
tail=tail.replace('SEEDED_TABLE','\n'.join(rows))
kf=json.load(open(os.path.join(H,'known_findings.json')))['findings']
fx=[f for f in kf if f['status']=='fixed']
ft=['| property | commit | what failed |','|---|---|---|']
for f in fx:
    what=f['what']
    pre='fixed: property=%s ' % f['property']
    if what.startswith(pre): what=what[len(pre):]
    ft.append('| %s | %s | %s |' % (f['property'], f['commit'].replace('fix: ','',1).replace('|','/'), what.replace('|','/')))
tail=tail.replace('FIXED_TABLE','\n'.join(ft)).replace('FIXED_COUNT',str(len(set(f['commit'] for f in fx))))
ol=[]
for f in kf:
    if f['status']!='fixed':
        ol.append('* **%s** `%s` / `%s` - %s' % (f['property'], f['oracle'], f['sig'], f['what']))
tail=tail.replace('OPEN_LIST','\n\n'.join(ol))
sr=os.path.join(H,'tools','soak_result.txt')
tail=tail.replace('SOAK_RESULT', open(sr).read().strip() if os.path.exists(sr) else 'Results are appended here when a soak finishes.')
p=os.path.join(H,'DESIGN.md')
s=open(p).read()
mark='\n---------------------------------------------------------------------------------\n\n## 13. What the checks found'
if mark in s:
    s=s[:s.index(mark)]
open(p,'w').write(s.rstrip('\n')+'\n'+tail)
print('DESIGN.md tail regenerated')
